package main

import (
	"fmt"
	"os"
	"path/filepath"
	"sort"
	"strings"
	"unicode"
)

// ---------- expression AST ----------

type Expr interface{}

type (
	EIdent struct{ Name string }
	ENum   struct{ Text string }
	EBin   struct {
		Op   string
		L, R Expr
	}
	EUn struct {
		Op string
		X  Expr
	}
	ESel struct {
		X    Expr
		Name string
	}
	EIndex struct{ X, I Expr }
	ECall  struct {
		Fn   Expr
		Args []Expr
	}
	EQuant struct {
		Forall bool
		Expand bool
		Vars   []Binder
		Pats   []Expr
		Body   Expr
	}
	EType struct{ T TypeExpr } // a type used as an expression (conversion target / is())
)

type Binder struct {
	Name string
	T    TypeExpr
}

// TypeExpr: Kind "name" (Name, optional Pkg), "ptr", "slice", "array" (N), "map" (K,V)
type TypeExpr struct {
	Kind string
	Pkg  string
	Name string
	N    int64
	Elem *TypeExpr
	Key  *TypeExpr
}

func (t TypeExpr) String() string {
	switch t.Kind {
	case "ptr":
		return "*" + t.Elem.String()
	case "slice":
		return "[]" + t.Elem.String()
	case "array":
		return fmt.Sprintf("[%d]%s", t.N, t.Elem.String())
	case "map":
		return "map[" + t.Key.String() + "]" + t.Elem.String()
	}
	if t.Pkg != "" {
		return t.Pkg + "." + t.Name
	}
	return t.Name
}

// ---------- lexer ----------

type tok struct {
	kind string // id num op eof
	text string
	pos  int
}

func lex(s string) ([]tok, error) {
	var out []tok
	i := 0
	ops := []string{"<==>", "==>", "::", ":=", "&&", "||", "==", "!=", "<=", ">=", "<<", ">>", "&^", "..."}
	for i < len(s) {
		ch := rune(s[i])
		switch {
		case unicode.IsSpace(ch):
			i++
		case unicode.IsLetter(ch) || ch == '_' || ch == '$':
			j := i
			for j < len(s) && (unicode.IsLetter(rune(s[j])) || unicode.IsDigit(rune(s[j])) || s[j] == '_' || s[j] == '$') {
				j++
			}
			out = append(out, tok{"id", s[i:j], i})
			i = j
		case unicode.IsDigit(ch):
			j := i
			for j < len(s) && (unicode.IsDigit(rune(s[j])) || unicode.IsLetter(rune(s[j])) || s[j] == '_') {
				j++
			}
			out = append(out, tok{"num", strings.ReplaceAll(s[i:j], "_", ""), i})
			i = j
		default:
			matched := false
			for _, op := range ops {
				if strings.HasPrefix(s[i:], op) {
					out = append(out, tok{"op", op, i})
					i += len(op)
					matched = true
					break
				}
			}
			if !matched {
				if strings.ContainsRune("+-*/%&|^!<>()[]{}.,:=?", ch) {
					out = append(out, tok{"op", string(ch), i})
					i++
				} else {
					return nil, fmt.Errorf("bad character %q at %d in %q", ch, i, s)
				}
			}
		}
	}
	out = append(out, tok{"eof", "", len(s)})
	return out, nil
}

// ---------- parser ----------

type parser struct {
	toks []tok
	p    int
	src  string
}

func (p *parser) peek() tok { return p.toks[p.p] }
func (p *parser) next() tok { t := p.toks[p.p]; p.p++; return t }
func (p *parser) isOp(s string) bool {
	t := p.peek()
	return t.kind == "op" && t.text == s
}
func (p *parser) isId(s string) bool {
	t := p.peek()
	return t.kind == "id" && t.text == s
}
func (p *parser) accept(s string) bool {
	if p.isOp(s) {
		p.p++
		return true
	}
	return false
}
func (p *parser) expect(s string) {
	if !p.accept(s) {
		panic(fmt.Errorf("expected %q at %d in %q (got %q)", s, p.peek().pos, p.src, p.peek().text))
	}
}

func parseExpr(src string) (e Expr, err error) {
	toks, err := lex(src)
	if err != nil {
		return nil, err
	}
	p := &parser{toks: toks, src: src}
	defer func() {
		if r := recover(); r != nil {
			if er, ok := r.(error); ok {
				err = er
				return
			}
			panic(r)
		}
	}()
	e = p.expr()
	if p.peek().kind != "eof" {
		return nil, fmt.Errorf("trailing input at %d in %q", p.peek().pos, src)
	}
	return e, nil
}

func (p *parser) expr() Expr {
	if p.isId("forall") || p.isId("exists") {
		return p.quant()
	}
	return p.impl()
}

func (p *parser) quant() Expr {
	q := &EQuant{Forall: p.next().text == "forall"}
	if p.accept("!") {
		q.Expand = true
	}
	for {
		name := p.next()
		if name.kind != "id" {
			panic(fmt.Errorf("binder name expected in %q", p.src))
		}
		t := p.typeExpr()
		q.Vars = append(q.Vars, Binder{name.text, t})
		if !p.accept(",") {
			break
		}
	}
	p.expect("::")
	for p.isOp("{") {
		p.next()
		for {
			q.Pats = append(q.Pats, p.expr())
			if !p.accept(",") {
				break
			}
		}
		p.expect("}")
	}
	q.Body = p.expr()
	return q
}

func (p *parser) typeExpr() TypeExpr {
	if p.accept("*") {
		e := p.typeExpr()
		return TypeExpr{Kind: "ptr", Elem: &e}
	}
	if p.accept("[") {
		if p.accept("]") {
			e := p.typeExpr()
			return TypeExpr{Kind: "slice", Elem: &e}
		}
		n := p.next()
		var v int64
		fmt.Sscan(n.text, &v)
		p.expect("]")
		e := p.typeExpr()
		return TypeExpr{Kind: "array", N: v, Elem: &e}
	}
	t := p.next()
	if t.kind != "id" {
		panic(fmt.Errorf("type expected at %d in %q", t.pos, p.src))
	}
	if t.text == "map" {
		p.expect("[")
		k := p.typeExpr()
		p.expect("]")
		e := p.typeExpr()
		return TypeExpr{Kind: "map", Key: &k, Elem: &e}
	}
	te := TypeExpr{Kind: "name", Name: t.text}
	if p.isOp(".") && p.toks[p.p+1].kind == "id" {
		p.next()
		te.Pkg = t.text
		te.Name = p.next().text
	}
	if p.isOp("[") { // generic instance: pointers[archetype]
		depth := 0
		start := p.p
		for {
			tk := p.next()
			if tk.text == "[" {
				depth++
			} else if tk.text == "]" {
				depth--
				if depth == 0 {
					break
				}
			} else if tk.kind == "eof" {
				panic(fmt.Errorf("unbalanced type args in %q", p.src))
			}
		}
		var sb strings.Builder
		for _, tk := range p.toks[start:p.p] {
			sb.WriteString(tk.text)
		}
		te.Name += sb.String()
	}
	return te
}

func (p *parser) impl() Expr {
	l := p.or()
	if p.accept("==>") {
		r := p.expr() // right assoc, quantifiers allowed on the right
		return &EBin{"==>", l, r}
	}
	if p.accept("<==>") {
		r := p.or()
		return &EBin{"<==>", l, r}
	}
	if p.accept("?") {
		a := p.expr()
		p.expect(":")
		b := p.expr()
		return &ECall{Fn: &EIdent{"ite"}, Args: []Expr{l, a, b}}
	}
	return l
}

func (p *parser) or() Expr {
	l := p.and()
	for p.accept("||") {
		l = &EBin{"||", l, p.and()}
	}
	return l
}

func (p *parser) and() Expr {
	l := p.cmp()
	for p.accept("&&") {
		l = &EBin{"&&", l, p.cmp()}
	}
	return l
}

func (p *parser) cmp() Expr {
	if p.isId("forall") || p.isId("exists") {
		return p.quant()
	}
	l := p.add()
	for _, op := range []string{"==", "!=", "<=", ">=", "<", ">"} {
		if p.isOp(op) {
			p.next()
			return &EBin{op, l, p.add()}
		}
	}
	return l
}

func (p *parser) add() Expr {
	l := p.mul()
	for {
		switch {
		case p.accept("+"):
			l = &EBin{"+", l, p.mul()}
		case p.accept("-"):
			l = &EBin{"-", l, p.mul()}
		case p.accept("|"):
			l = &EBin{"|", l, p.mul()}
		case p.accept("^"):
			l = &EBin{"^", l, p.mul()}
		default:
			return l
		}
	}
}

func (p *parser) mul() Expr {
	l := p.unary()
	for {
		switch {
		case p.accept("*"):
			l = &EBin{"*", l, p.unary()}
		case p.accept("/"):
			l = &EBin{"/", l, p.unary()}
		case p.accept("%"):
			l = &EBin{"%", l, p.unary()}
		case p.accept("<<"):
			l = &EBin{"<<", l, p.unary()}
		case p.accept(">>"):
			l = &EBin{">>", l, p.unary()}
		case p.accept("&^"):
			l = &EBin{"&^", l, p.unary()}
		case p.accept("&"):
			l = &EBin{"&", l, p.unary()}
		default:
			return l
		}
	}
}

func (p *parser) unary() Expr {
	for _, op := range []string{"!", "-", "^", "*", "&"} {
		if p.isOp(op) {
			p.next()
			return &EUn{op, p.unary()}
		}
	}
	return p.postfix()
}

func (p *parser) postfix() Expr {
	e := p.primary()
	for {
		switch {
		case p.isOp(".") && p.toks[p.p+1].kind == "id":
			p.next()
			e = &ESel{e, p.next().text}
		case p.isOp("["):
			p.next()
			i := p.expr()
			p.expect("]")
			e = &EIndex{e, i}
		case p.isOp("("):
			p.next()
			var args []Expr
			if id, ok := e.(*EIdent); ok && id.Name == "mk" {
				args = append(args, &EType{p.typeExpr()})
				for p.accept(",") {
					args = append(args, p.expr())
				}
				p.expect(")")
				e = &ECall{e, args}
				continue
			}
			if id, ok := e.(*EIdent); ok && (id.Name == "is" || id.Name == "as") {
				args = append(args, p.expr())
				p.expect(",")
				args = append(args, &EType{p.typeExpr()})
				p.expect(")")
				e = &ECall{e, args}
				continue
			}
			if !p.isOp(")") {
				for {
					args = append(args, p.argExpr())
					if !p.accept(",") {
						break
					}
				}
			}
			p.expect(")")
			e = &ECall{e, args}
		default:
			return e
		}
	}
}

// argExpr: an expression (types are only accepted by is/as, handled in postfix).
func (p *parser) argExpr() Expr { return p.expr() }

func (p *parser) primary() Expr {
	t := p.next()
	switch t.kind {
	case "num":
		return &ENum{t.text}
	case "id":
		return &EIdent{t.text}
	case "op":
		if t.text == "(" {
			e := p.expr()
			p.expect(")")
			return e
		}
	}
	panic(fmt.Errorf("unexpected %q at %d in %q", t.text, t.pos, p.src))
}

// ---------- contract database ----------

type Clause struct {
	Kind string // requires ensures panics_if modifies ghost inv lockfast ...
	Text string
	E    Expr   // parsed (requires/ensures/panics_if/inv)
	Name string // optional label: "ensures[label] expr"
	Line int
	File string
	// ghost assignment
	LHS, RHS Expr
	// modifies targets
	Mods []Expr
	// known-gap
	Gap string
}

type FuncSpec struct {
	Key     string
	Params  []string
	Results []string
	Clauses []*Clause
	Loops   map[int][]*Clause
	Flags   map[string]string // pure, inline, trusted, may_panic, nodirty, uf=<name>
	IsIface bool
	File    string
	Line    int
	Props   []string
}

type PredSpec struct {
	Name   string
	Params []Binder
	Ret    TypeExpr
	Body   Expr
	Pkg    string
	Text   string
}

type GhostField struct {
	Pkg, Struct, Name string
	T                 TypeExpr
}

type LemmaSpec struct {
	Name    string
	Params  []Binder
	Clauses []*Clause
	Pkg     string
	Props   []string
	File    string
	Line    int
}

type UfSpec struct {
	Name   string
	Params []Binder
	Ret    TypeExpr
	Pkg    string
}

type AxiomSpec struct {
	Name string
	Pkg  string
	E    Expr
	Text string
	UF   string // emitted when this uninterpreted function is first used
}

type SpecDB struct {
	Axioms     []*AxiomSpec
	Structural []string               // sink functions: reaching one makes an exported function a structural entry point
	LockExempt map[string]string      // entry points exempt from the lockfast rule, with the reason
	Globals    map[string]*GhostField // ghost globals: name -> map[ref]V
	Ufs        map[string]*UfSpec
	Funcs      map[string]*FuncSpec
	Preds      map[string]*PredSpec
	Ghosts     map[string]*GhostField // key pkg.Struct.Name
	Lemmas     map[string]*LemmaSpec
	Consts     map[string]string
	Files      []string
}

func (db *SpecDB) flag(key, f string) bool {
	if s := db.Funcs[key]; s != nil {
		_, ok := s.Flags[f]
		return ok
	}
	return false
}

var clauseKinds = map[string]bool{"requires": true, "ensures": true, "panics_if": true, "modifies": true, "ghost": true,
	"inv": true, "lockfast": true, "loop": true, "flag": true, "assume": true, "known": true, "on_panic": true, "loopmod": true, "decreases": true, "props": true, "truncates": true, "wraps": true, "dirty_unless": true, "hint": true}

// loadSpecs reads every verif_contracts*.go file of the library packages.
func loadSpecs(repo string, tags string) (*SpecDB, error) {
	db := &SpecDB{LockExempt: map[string]string{}, Globals: map[string]*GhostField{}, Ufs: map[string]*UfSpec{}, Funcs: map[string]*FuncSpec{}, Preds: map[string]*PredSpec{}, Ghosts: map[string]*GhostField{}, Lemmas: map[string]*LemmaSpec{}, Consts: map[string]string{}}
	tiny := false
	for _, t := range strings.Split(tags, ",") {
		if t == "tiny" {
			tiny = true
		}
	}
	for _, dir := range []string{"ecs", "ecs/event", "filter", "listener", "generic"} {
		files, _ := filepath.Glob(filepath.Join(repo, dir, "verif_contracts*.go"))
		sort.Strings(files)
		for _, f := range files {
			if err := db.loadFile(f, filepath.Base(dir), tiny); err != nil {
				return nil, err
			}
			db.Files = append(db.Files, f)
		}
	}
	return db, nil
}

func (db *SpecDB) loadFile(path, pkg string, tiny bool) error {
	data, err := os.ReadFile(path)
	if err != nil {
		return err
	}
	lines := strings.Split(string(data), "\n")
	type item struct {
		head     string
		headLine int
		body     []struct {
			text string
			line int
		}
	}
	var items []*item
	var cur *item
	skip := false // conditional sections: //@ if tiny / //@ if !tiny / //@ endif
	for i, ln := range lines {
		t := strings.TrimRight(ln, " \t\r")
		if !strings.HasPrefix(t, "//@") {
			continue
		}
		t = t[3:]
		tt := strings.TrimSpace(t)
		if tt == "" || strings.HasPrefix(tt, "--") {
			continue
		}
		if j := strings.Index(t, " -- "); j >= 0 {
			t = t[:j]
			tt = strings.TrimSpace(t)
		}
		switch tt {
		case "if tiny":
			skip = !tiny
			continue
		case "if !tiny":
			skip = tiny
			continue
		case "endif":
			skip = false
			continue
		}
		if skip {
			continue
		}
		indented := strings.HasPrefix(t, "  ") || strings.HasPrefix(t, "\t")
		if !indented {
			cur = &item{head: tt, headLine: i + 1}
			items = append(items, cur)
		} else if cur != nil {
			first := strings.Fields(tt)[0]
			first = strings.SplitN(first, "[", 2)[0]
			if clauseKinds[first] || len(cur.body) == 0 {
				cur.body = append(cur.body, struct {
					text string
					line int
				}{tt, i + 1})
			} else {
				cur.body[len(cur.body)-1].text += " " + tt
			}
		}
	}
	for _, it := range items {
		// join continuation lines of the head for pred definitions
		head := it.head
		kw := strings.Fields(head)[0]
		switch kw {
		case "pred":
			full := head
			for _, b := range it.body {
				full += " " + b.text
			}
			if err := db.parsePred(full, pkg); err != nil {
				return fmt.Errorf("%s:%d: %v", path, it.headLine, err)
			}
		case "uf":
			// uf name(params) type
			hs := strings.TrimSpace(head[2:])
			i, j := strings.Index(hs, "("), strings.LastIndex(hs, ")")
			if i < 0 || j < i {
				return fmt.Errorf("%s:%d: uf name(params) type", path, it.headLine)
			}
			bs, err := parseBinders(hs[i+1 : j])
			if err != nil {
				return fmt.Errorf("%s:%d: %v", path, it.headLine, err)
			}
			toks, err := lex(strings.TrimSpace(hs[j+1:]))
			if err != nil {
				return err
			}
			pp := &parser{toks: toks, src: hs}
			db.Ufs[strings.TrimSpace(hs[:i])] = &UfSpec{Name: strings.TrimSpace(hs[:i]), Params: bs, Ret: pp.typeExpr(), Pkg: pkg}
		case "axiom":
			// axiom <uf-name>: <expr>   (definitional fact about an uninterpreted spec function, heap-independent)
			full := head
			for _, b := range it.body {
				full += " " + b.text
			}
			rest := strings.TrimSpace(full[len("axiom"):])
			i := strings.Index(rest, ":")
			if i < 0 {
				return fmt.Errorf("%s:%d: axiom uf: expr", path, it.headLine)
			}
			e, err := parseExpr(rest[i+1:])
			if err != nil {
				return fmt.Errorf("%s:%d: %v", path, it.headLine, err)
			}
			db.Axioms = append(db.Axioms, &AxiomSpec{Name: strings.TrimSpace(rest[:i]), UF: strings.TrimSpace(rest[:i]), Pkg: pkg, E: e, Text: rest})
		case "structural":
			full := head
			for _, b := range it.body {
				full += " " + b.text
			}
			db.Structural = append(db.Structural, strings.Fields(full)[1:]...)
		case "lockexempt":
			f := strings.Fields(head)
			if len(f) < 3 {
				return fmt.Errorf("%s:%d: lockexempt key reason", path, it.headLine)
			}
			db.LockExempt[f[1]] = strings.Join(f[2:], " ")
		case "ghostglobal":
			f := strings.Fields(head)
			if len(f) < 3 {
				return fmt.Errorf("%s:%d: ghostglobal name type", path, it.headLine)
			}
			toks, err := lex(strings.Join(f[2:], " "))
			if err != nil {
				return err
			}
			pp := &parser{toks: toks, src: head}
			db.Globals[f[1]] = &GhostField{Pkg: pkg, Name: f[1], T: pp.typeExpr()}
		case "ghostfield":
			f := strings.Fields(head)
			if len(f) < 3 {
				return fmt.Errorf("%s:%d: ghostfield Struct.name type", path, it.headLine)
			}
			parts := strings.Split(f[1], ".")
			toks, err := lex(strings.Join(f[2:], " "))
			if err != nil {
				return err
			}
			p := &parser{toks: toks, src: head}
			te := p.typeExpr()
			g := &GhostField{Pkg: pkg, Struct: parts[0], Name: parts[1], T: te}
			db.Ghosts[pkg+"."+parts[0]+"."+parts[1]] = g
		case "func", "iface":
			fs, err := parseFuncHead(head[len(kw):], pkg)
			if err != nil {
				return fmt.Errorf("%s:%d: %v", path, it.headLine, err)
			}
			fs.IsIface = kw == "iface"
			fs.File, fs.Line = path, it.headLine
			curLoop := 0
			for _, b := range it.body {
				cl, err := parseClause(b.text)
				if err != nil {
					return fmt.Errorf("%s:%d: %v", path, b.line, err)
				}
				cl.Line, cl.File = b.line, path
				switch cl.Kind {
				case "loop":
					fmt.Sscan(strings.TrimPrefix(strings.TrimSpace(cl.Text), "#"), &curLoop)
				case "flag":
					for _, fl := range strings.Fields(cl.Text) {
						kv := strings.SplitN(fl, "=", 2)
						if len(kv) == 2 {
							fs.Flags[kv[0]] = kv[1]
						} else {
							fs.Flags[kv[0]] = ""
						}
					}
				case "props":
					fs.Props = append(fs.Props, strings.Fields(cl.Text)...)
				case "inv", "loopmod", "decreases":
					if curLoop == 0 {
						return fmt.Errorf("%s:%d: inv outside loop", path, b.line)
					}
					fs.Loops[curLoop] = append(fs.Loops[curLoop], cl)
				default:
					fs.Clauses = append(fs.Clauses, cl)
				}
			}
			if old := db.Funcs[fs.Key]; old != nil {
				return fmt.Errorf("%s:%d: duplicate contract for %s", path, it.headLine, fs.Key)
			}
			db.Funcs[fs.Key] = fs
		case "lemma":
			ls, err := parseLemmaHead(head[len(kw):], pkg)
			if err != nil {
				return fmt.Errorf("%s:%d: %v", path, it.headLine, err)
			}
			ls.File, ls.Line = path, it.headLine
			for _, b := range it.body {
				cl, err := parseClause(b.text)
				if err != nil {
					return fmt.Errorf("%s:%d: %v", path, b.line, err)
				}
				cl.Line, cl.File = b.line, path
				if cl.Kind == "props" {
					ls.Props = append(ls.Props, strings.Fields(cl.Text)...)
					continue
				}
				ls.Clauses = append(ls.Clauses, cl)
			}
			db.Lemmas[ls.Name] = ls
		default:
			return fmt.Errorf("%s:%d: unknown contract item %q", path, it.headLine, kw)
		}
	}
	return nil
}

func parseClause(text string) (*Clause, error) {
	f := strings.Fields(text)
	kw := f[0]
	rest := strings.TrimSpace(text[len(kw):])
	cl := &Clause{Kind: kw, Text: rest}
	if i := strings.Index(kw, "["); i >= 0 && strings.HasSuffix(kw, "]") {
		cl.Kind = kw[:i]
		cl.Name = kw[i+1 : len(kw)-1]
	}
	if !clauseKinds[cl.Kind] {
		return nil, fmt.Errorf("unknown clause %q", kw)
	}
	var err error
	switch cl.Kind {
	case "requires", "ensures", "panics_if", "inv", "lockfast", "assume", "on_panic", "dirty_unless", "hint":
		cl.E, err = parseExpr(rest)
	case "known":
		// known <gap-name>: requires <expr>
		i := strings.Index(rest, ":")
		if i < 0 {
			return nil, fmt.Errorf("known <gap>: <expr>")
		}
		cl.Gap = strings.TrimSpace(rest[:i])
		r := strings.TrimSpace(rest[i+1:])
		r = strings.TrimPrefix(r, "requires ")
		cl.E, err = parseExpr(r)
	case "ghost":
		i := strings.Index(rest, ":=")
		if i < 0 {
			return nil, fmt.Errorf("ghost lhs := rhs")
		}
		cl.LHS, err = parseExpr(rest[:i])
		if err == nil {
			cl.RHS, err = parseExpr(rest[i+2:])
		}
	case "modifies", "loopmod":
		if rest == "nothing" || rest == "" {
			break
		}
		for _, part := range splitTop(rest, ',') {
			part = strings.TrimSpace(part)
			var e Expr
			e, err = parseExpr(strings.ReplaceAll(part, "[*]", "[ALL]"))
			if err != nil {
				break
			}
			cl.Mods = append(cl.Mods, e)
		}
	}
	return cl, err
}

func splitTop(s string, sep rune) []string {
	var out []string
	d := 0
	last := 0
	for i, ch := range s {
		switch ch {
		case '(', '[', '{':
			d++
		case ')', ']', '}':
			d--
		}
		if ch == sep && d == 0 {
			out = append(out, s[last:i])
			last = i + 1
		}
	}
	return append(out, s[last:])
}

// parseFuncHead:  pkg.Recv.Name(p1, p2) (r1, r2)   — names only, bound positionally.
func parseFuncHead(s, pkg string) (*FuncSpec, error) {
	s = strings.TrimSpace(s)
	i := strings.Index(s, "(")
	// generic keys contain '[' ... ']' but never '(' before the parameter list
	if i < 0 {
		return nil, fmt.Errorf("missing parameter list in %q", s)
	}
	key := strings.TrimSpace(s[:i])
	if !strings.Contains(strings.SplitN(key, "[", 2)[0], ".") || strings.Count(strings.SplitN(key, "[", 2)[0], ".") == 0 {
		key = pkg + "." + key
	} else {
		first := strings.SplitN(key, ".", 2)[0]
		known := map[string]bool{"ecs": true, "filter": true, "listener": true, "generic": true, "event": true}
		if !known[first] {
			key = pkg + "." + key
		}
	}
	j := strings.Index(s[i:], ")")
	if j < 0 {
		return nil, fmt.Errorf("unbalanced parameter list in %q", s)
	}
	fs := &FuncSpec{Key: key, Loops: map[int][]*Clause{}, Flags: map[string]string{}}
	for _, p := range strings.Split(s[i+1:i+j], ",") {
		if p = strings.TrimSpace(p); p != "" {
			fs.Params = append(fs.Params, p)
		}
	}
	rest := strings.TrimSpace(s[i+j+1:])
	rest = strings.Trim(rest, "()")
	for _, p := range strings.Split(rest, ",") {
		if p = strings.TrimSpace(p); p != "" {
			fs.Results = append(fs.Results, p)
		}
	}
	return fs, nil
}

func parseBinders(s string) ([]Binder, error) {
	var out []Binder
	for _, part := range splitTop(s, ',') {
		part = strings.TrimSpace(part)
		if part == "" {
			continue
		}
		f := strings.SplitN(part, " ", 2)
		if len(f) != 2 {
			return nil, fmt.Errorf("binder %q needs a type", part)
		}
		toks, err := lex(f[1])
		if err != nil {
			return nil, err
		}
		p := &parser{toks: toks, src: part}
		var te TypeExpr
		err = func() (err error) {
			defer func() {
				if r := recover(); r != nil {
					err = fmt.Errorf("%v", r)
				}
			}()
			te = p.typeExpr()
			return nil
		}()
		if err != nil {
			return nil, err
		}
		out = append(out, Binder{f[0], te})
	}
	return out, nil
}

func (db *SpecDB) parsePred(s, pkg string) error {
	s = strings.TrimSpace(strings.TrimPrefix(s, "pred"))
	i := strings.Index(s, "(")
	if i < 0 {
		return fmt.Errorf("pred needs parameters: %q", s)
	}
	name := strings.TrimSpace(s[:i])
	d := 0
	j := i
	for ; j < len(s); j++ {
		if s[j] == '(' {
			d++
		} else if s[j] == ')' {
			d--
			if d == 0 {
				break
			}
		}
	}
	bs, err := parseBinders(s[i+1 : j])
	if err != nil {
		return err
	}
	rest := strings.TrimSpace(s[j+1:])
	k := strings.Index(rest, "=")
	if k < 0 {
		return fmt.Errorf("pred needs '= body': %q", s)
	}
	rt := strings.TrimSpace(rest[:k])
	toks, err := lex(rt)
	if err != nil {
		return err
	}
	p := &parser{toks: toks, src: rt}
	ret := p.typeExpr()
	body, err := parseExpr(rest[k+1:])
	if err != nil {
		return err
	}
	db.Preds[name] = &PredSpec{Name: name, Params: bs, Ret: ret, Body: body, Pkg: pkg, Text: s}
	return nil
}

func parseLemmaHead(s, pkg string) (*LemmaSpec, error) {
	s = strings.TrimSpace(s)
	i := strings.Index(s, "(")
	j := strings.LastIndex(s, ")")
	if i < 0 || j < i {
		return nil, fmt.Errorf("lemma name(params)")
	}
	bs, err := parseBinders(s[i+1 : j])
	if err != nil {
		return nil, err
	}
	return &LemmaSpec{Name: strings.TrimSpace(s[:i]), Params: bs, Pkg: pkg}, nil
}

func exprString(e Expr) string {
	switch x := e.(type) {
	case *EIdent:
		return x.Name
	case *ENum:
		return x.Text
	case *EBin:
		return "(" + exprString(x.L) + " " + x.Op + " " + exprString(x.R) + ")"
	case *EUn:
		return x.Op + exprString(x.X)
	case *ESel:
		return exprString(x.X) + "." + x.Name
	case *EIndex:
		return exprString(x.X) + "[" + exprString(x.I) + "]"
	case *ECall:
		var as []string
		for _, a := range x.Args {
			as = append(as, exprString(a))
		}
		return exprString(x.Fn) + "(" + strings.Join(as, ", ") + ")"
	case *EQuant:
		q := "exists"
		if x.Forall {
			q = "forall"
		}
		var bs []string
		for _, b := range x.Vars {
			bs = append(bs, b.Name+" "+b.T.String())
		}
		return q + " " + strings.Join(bs, ", ") + " :: " + exprString(x.Body)
	case *EType:
		return x.T.String()
	}
	return "?"
}
