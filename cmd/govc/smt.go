package main

import (
	"bytes"
	"context"
	"fmt"
	"os"
	"os/exec"
	"path/filepath"
	"strings"
	"sync"
	"time"
)

type Solver struct {
	Name string
	Cmd  []string
}

func solvers(seed int, timeoutS int) []Solver {
	return []Solver{
		{"z3-new", []string{"z3-new", "-smt2", fmt.Sprintf("-T:%d", timeoutS), fmt.Sprintf("smt.random_seed=%d", seed), fmt.Sprintf("sat.random_seed=%d", seed)}},
		{"z3-new/seed2", []string{"z3-new", "-smt2", fmt.Sprintf("-T:%d", timeoutS), fmt.Sprintf("smt.random_seed=%d", seed+1000), fmt.Sprintf("sat.random_seed=%d", seed+1000)}},
		{"z3-new/ematch", []string{"z3-new", "-smt2", fmt.Sprintf("-T:%d", timeoutS), fmt.Sprintf("smt.random_seed=%d", seed), "smt.mbqi=false"}},
		{"z3-new/norelevancy", []string{"z3-new", "-smt2", fmt.Sprintf("-T:%d", timeoutS), fmt.Sprintf("smt.random_seed=%d", seed), "smt.relevancy=0"}},
		{"cvc5", []string{"cvc5", "--lang=smt2", fmt.Sprintf("--tlimit=%d", timeoutS*1000), fmt.Sprintf("--seed=%d", seed)}},
		{"z3", []string{"/usr/bin/z3", "-smt2", fmt.Sprintf("-T:%d", timeoutS), fmt.Sprintf("smt.random_seed=%d", seed)}},
	}
}

const smtHeader = "(set-option :produce-models true)\n(set-logic ALL)\n"

func obligationSMT(script []string, o *Obligation, getVals []string) string {
	var sb strings.Builder
	sb.WriteString(smtHeader)
	sb.WriteString("; obligation " + o.Name + "\n; " + strings.ReplaceAll(o.Text, "\n", " ") + "\n")
	for _, l := range script[:o.Prefix] {
		sb.WriteString(l)
		sb.WriteByte('\n')
	}
	sb.WriteString("(assert (not " + o.Goal + "))\n(check-sat)\n")
	if len(getVals) > 0 {
		sb.WriteString("(get-value (" + strings.Join(getVals, " ") + "))\n")
	}
	return sb.String()
}

type solveOut struct {
	verdict string // unsat sat unknown timeout error
	solver  string
	ms      int64
	raw     string
}

func runSolver(ctx context.Context, s Solver, file string) solveOut {
	start := time.Now()
	cmd := exec.CommandContext(ctx, s.Cmd[0], append(s.Cmd[1:], file)...)
	var out bytes.Buffer
	cmd.Stdout = &out
	cmd.Stderr = &out
	err := cmd.Run()
	ms := time.Since(start).Milliseconds()
	raw := out.String()
	first := ""
	for _, ln := range strings.Split(raw, "\n") {
		ln = strings.TrimSpace(ln)
		if ln == "" || strings.HasPrefix(ln, "WARNING") || strings.HasPrefix(ln, "(error") && false {
			continue
		}
		first = ln
		break
	}
	switch first {
	case "unsat", "sat", "unknown":
		return solveOut{first, s.Name, ms, raw}
	case "timeout":
		return solveOut{"timeout", s.Name, ms, raw}
	}
	if ctx.Err() != nil {
		return solveOut{"timeout", s.Name, ms, raw}
	}
	if strings.Contains(raw, "timeout") || strings.Contains(raw, "interrupted") {
		return solveOut{"timeout", s.Name, ms, raw}
	}
	_ = err
	return solveOut{"error", s.Name, ms, raw}
}

// portfolio races the solvers on one file; first definite (sat/unsat) answer wins.
func portfolio(file string, seed, timeoutS int, only string) solveOut {
	ss := solvers(seed, timeoutS)
	if only != "" {
		var f []Solver
		for _, s := range ss {
			if s.Name == only {
				f = append(f, s)
			}
		}
		ss = f
	}
	ctx, cancel := context.WithTimeout(context.Background(), time.Duration(timeoutS+2)*time.Second)
	defer cancel()
	ch := make(chan solveOut, len(ss))
	for _, s := range ss {
		go func(s Solver) { ch <- runSolver(ctx, s, file) }(s)
	}
	var last solveOut
	var details []string
	for range ss {
		r := <-ch
		details = append(details, fmt.Sprintf("%s:%s(%dms)", r.solver, r.verdict, r.ms))
		if r.verdict == "unsat" || r.verdict == "sat" {
			cancel()
			r.raw = strings.Join(details, " ") + "\n" + r.raw
			return r
		}
		if last.verdict == "" || r.verdict == "unknown" || (last.verdict == "error" && r.verdict != "error") {
			last = r
		}
	}
	last.raw = strings.Join(details, " ") + "\n" + last.raw
	return last
}

var heavySem = make(chan struct{}, 3)

type solveOpts struct {
	outDir   string
	seed     int
	timeoutS int
	jobs     int
	confirm  bool // thorough: confirm by a second solver
}

// discharge runs every obligation of the results.
func discharge(results []*FuncResult, opt solveOpts) {
	type job struct {
		r *FuncResult
		o *Obligation
	}
	var jobs []job
	for _, r := range results {
		for _, o := range r.Obls {
			jobs = append(jobs, job{r, o})
		}
	}
	sem := make(chan struct{}, opt.jobs)
	var wg sync.WaitGroup
	for _, j := range jobs {
		wg.Add(1)
		sem <- struct{}{}
		go func(j job) {
			defer wg.Done()
			defer func() { <-sem }()
			solveOne(j.r, j.o, opt)
		}(j)
	}
	wg.Wait()
}

func solveOne(r *FuncResult, o *Obligation, opt solveOpts) {
	if o.Result != "" { // decided without a solver (syntactic frame clauses)
		return
	}
	dir := filepath.Join(opt.outDir, smtName(r.Tags))
	os.MkdirAll(dir, 0o755)
	file := filepath.Join(dir, smtName(o.Name)+".smt2")
	o.SmtFile = file
	os.WriteFile(file, []byte(obligationSMT(r.Script, o, nil)), 0o644)
	if o.Expect == "sat" {
		res := portfolio(file, opt.seed, 2, "z3-new")
		o.Result, o.Backend, o.Ms, o.Detail = res.verdict, res.solver, res.ms, firstLines(res.raw, 3)
		if o.Result == "unsat" && o.Unless != "" {
			// is the region entered at all under the preconditions?
			e := &Obligation{Name: o.Name + "@entry", Text: "region entry reachable", Prefix: o.UnlessPrefix, Goal: not(o.Unless)}
			ef := filepath.Join(dir, smtName(e.Name)+".smt2")
			os.WriteFile(ef, []byte(obligationSMT(r.Script, e, nil)), 0o644)
			er := portfolio(ef, opt.seed, 2, "z3-new")
			o.Ms += er.ms
			if er.verdict == "unsat" {
				o.Result = "dead"
				o.Detail = "the region is unreachable under the preconditions (entry refuted): nothing to cover"
			}
		}
		return
	}
	// fast attempt, then the full race
	res := portfolio(file, opt.seed, min(8, opt.timeoutS), "z3-new")
	if res.verdict != "unsat" && res.verdict != "sat" {
		// the full race starts six solver processes: at most three races at a time, so that each keeps real CPU time
		heavySem <- struct{}{}
		res = portfolio(file, opt.seed, opt.timeoutS, "")
		<-heavySem
	}
	if res.verdict == "error" {
		// no solver produced a verdict line (process could not start, file vanished, resource exhaustion): not a statement
		// about the obligation. Write the query again and race once more after a pause.
		time.Sleep(3 * time.Second)
		os.WriteFile(file, []byte(obligationSMT(r.Script, o, nil)), 0o644)
		heavySem <- struct{}{}
		res = portfolio(file, opt.seed, opt.timeoutS, "")
		<-heavySem
	}
	o.Result, o.Backend, o.Ms, o.Detail = res.verdict, res.solver, res.ms, firstLines(res.raw, 6)
	if opt.confirm && o.Result == "unsat" && o.Expect == "unsat" {
		tries := 0
		for _, s := range solvers(opt.seed, opt.timeoutS) {
			if strings.SplitN(s.Name, "/", 2)[0] == strings.SplitN(o.Backend, "/", 2)[0] {
				continue
			}
			if tries++; tries > 1 {
				break // confirmation is best effort: one back end of another family, 10 s
			}
			c := portfolio(file, opt.seed, min(10, opt.timeoutS), s.Name)
			if c.verdict == "sat" {
				o.Result = "disagree"
				o.Detail += "\nsecond solver " + s.Name + " answered sat"
			}
			if c.verdict == "unsat" {
				o.Detail += "\nconfirmed by " + s.Name
				break
			}
		}
	}
}

func firstLines(s string, n int) string {
	l := strings.Split(s, "\n")
	if len(l) > n {
		l = l[:n]
	}
	return strings.Join(l, "\n")
}

// ok reports whether the obligation met its expectation.
func (o *Obligation) ok() bool {
	if o.Expect == "sat" {
		return o.Result == "sat" || o.Result == "unknown" || o.Result == "timeout" || o.Result == "dead"
	}
	return o.Result == "unsat"
}

// feasible asks a solver whether a path condition is satisfiable with the facts collected so far.
// Only a definite "unsat" prunes; every other answer keeps the path.
func (c *Ctx) feasible(reach string) bool {
	if reach == "false" {
		return false
	}
	if reach == "true" || c.feasChecks > 400 {
		return true
	}
	c.feasChecks++
	var sb strings.Builder
	sb.WriteString("(set-logic ALL)\n")
	for _, l := range c.script {
		sb.WriteString(l)
		sb.WriteByte('\n')
	}
	sb.WriteString("(assert " + reach + ")\n(check-sat)\n")
	cmd := exec.Command("z3-new", "-in", "-smt2", "-T:3")
	cmd.Stdin = strings.NewReader(sb.String())
	out, _ := cmd.Output()
	for _, ln := range strings.Split(string(out), "\n") {
		ln = strings.TrimSpace(ln)
		if ln == "unsat" {
			return false
		}
		if ln == "sat" || ln == "unknown" || ln == "timeout" {
			return true
		}
	}
	return true
}
