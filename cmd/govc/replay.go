package main

import (
	"bytes"
	"context"
	"encoding/json"
	"fmt"
	"go/types"
	"math/big"
	"os"
	"os/exec"
	"path/filepath"
	"strings"
	"time"
)

// ---------- model extraction ----------

type sexp struct {
	atom string
	list []*sexp
}

func parseSexps(s string) []*sexp {
	var stack [][]*sexp
	cur := []*sexp{}
	i := 0
	for i < len(s) {
		ch := s[i]
		switch {
		case ch == '(':
			stack = append(stack, cur)
			cur = []*sexp{}
			i++
		case ch == ')':
			if len(stack) == 0 {
				return cur
			}
			l := &sexp{list: cur}
			cur = append(stack[len(stack)-1], l)
			stack = stack[:len(stack)-1]
			i++
		case ch == ' ' || ch == '\n' || ch == '\t' || ch == '\r':
			i++
		case ch == '|':
			j := strings.IndexByte(s[i+1:], '|')
			if j < 0 {
				return cur
			}
			cur = append(cur, &sexp{atom: s[i : i+j+2]})
			i += j + 2
		default:
			j := i
			for j < len(s) && !strings.ContainsRune("() \n\t\r", rune(s[j])) {
				j++
			}
			cur = append(cur, &sexp{atom: s[i:j]})
			i = j
		}
	}
	return cur
}

func (e *sexp) String() string {
	if e.list == nil {
		return e.atom
	}
	var ps []string
	for _, x := range e.list {
		ps = append(ps, x.String())
	}
	return "(" + strings.Join(ps, " ") + ")"
}

// modelValue converts an SMT value to a big integer (bools: 0/1).
func modelValue(e *sexp) (*big.Int, bool) {
	if e.list == nil {
		a := e.atom
		switch {
		case a == "true":
			return big.NewInt(1), true
		case a == "false":
			return big.NewInt(0), true
		case strings.HasPrefix(a, "#x"):
			v, ok := new(big.Int).SetString(a[2:], 16)
			return v, ok
		case strings.HasPrefix(a, "#b"):
			v, ok := new(big.Int).SetString(a[2:], 2)
			return v, ok
		}
		v, ok := new(big.Int).SetString(a, 10)
		return v, ok
	}
	if len(e.list) == 2 && e.list[0].atom == "-" {
		v, ok := modelValue(e.list[1])
		if ok {
			return new(big.Int).Neg(v), true
		}
	}
	if len(e.list) == 3 && e.list[0].atom == "_" && strings.HasPrefix(e.list[1].atom, "bv") {
		v, ok := new(big.Int).SetString(e.list[1].atom[2:], 10)
		return v, ok
	}
	return nil, false
}

// getValues runs a solver on the obligation with a get-value request.
func getValues(r *FuncResult, o *Obligation, terms []string, timeoutS int) (map[string]*big.Int, string) {
	if len(terms) == 0 {
		return map[string]*big.Int{}, ""
	}
	file := strings.TrimSuffix(o.SmtFile, ".smt2") + ".model.smt2"
	os.WriteFile(file, []byte(obligationSMT(r.Script, o, terms)), 0o644)
	for _, s := range solvers(1, timeoutS) {
		ctx, cancel := context.WithTimeout(context.Background(), time.Duration(timeoutS+2)*time.Second)
		out := runSolver(ctx, s, file)
		cancel()
		if out.verdict != "sat" {
			continue
		}
		rest := out.raw[strings.Index(out.raw, "\n")+1:]
		xs := parseSexps(rest)
		if len(xs) == 0 || xs[0].list == nil {
			continue
		}
		vals := map[string]*big.Int{}
		okAll := true
		if len(xs[0].list) != len(terms) {
			continue
		}
		for i, pair := range xs[0].list {
			if len(pair.list) != 2 {
				okAll = false
				break
			}
			v, ok := modelValue(pair.list[1])
			if !ok {
				okAll = false
				break
			}
			vals[terms[i]] = v
		}
		if okAll {
			return vals, s.Name
		}
	}
	return nil, ""
}

// ---------- replay generation ----------

type replayGen struct {
	c       *replayCtx
	terms   []string
	vals    map[string]*big.Int
	pkg     string // package name of the function
	imports map[string]bool
	fail    string
}

type replayCtx struct {
	r *FuncResult
	o *Obligation
}

func (g *replayGen) need(t string) { g.terms = append(g.terms, t) }

// collect lists every model term needed to rebuild v (first pass); build renders a Go expression (second pass).
func (g *replayGen) lit(v Val, t types.Type, build bool) string {
	if g.fail != "" {
		return "nil"
	}
	switch classOf(t) {
	case CBool:
		if !build {
			g.need(v.T)
			return ""
		}
		if g.vals[v.T].Sign() != 0 {
			return "true"
		}
		return "false"
	case CInt:
		if !build {
			g.need(v.T)
			return ""
		}
		x := g.vals[v.T]
		w, signed := intInfo(t)
		if signed && x.Bit(w-1) == 1 {
			x = new(big.Int).Sub(x, new(big.Int).Lsh(big.NewInt(1), uint(w)))
		}
		return g.typeName(t) + "(" + x.String() + ")"
	case CSmallArr:
		a := under(t).(*types.Array)
		var els []string
		for i := range v.F {
			els = append(els, g.lit(v.F[i], a.Elem(), build))
		}
		return g.typeName(t) + "{" + strings.Join(els, ", ") + "}"
	case CArray:
		a := under(t).(*types.Array)
		if a.Len() > 512 || classOf(a.Elem()) != CInt {
			g.fail = "array too large or of non-integers"
			return ""
		}
		var els []string
		for i := int64(0); i < a.Len(); i++ {
			ev := sc("(select "+v.T+" "+bvInt(64, i)+")", a.Elem())
			els = append(els, g.lit(ev, a.Elem(), build))
		}
		return g.typeName(t) + "{" + strings.Join(els, ", ") + "}"
	case CStruct:
		s := under(t).(*types.Struct)
		if v.K != VStruct {
			g.fail = "struct shape"
			return ""
		}
		var fs []string
		for i := 0; i < s.NumFields(); i++ {
			fs = append(fs, s.Field(i).Name()+": "+g.lit(v.F[i], s.Field(i).Type(), build))
		}
		if n, ok := types.Unalias(t).(*types.Named); ok && n.Obj().Pkg() != nil && n.Obj().Pkg().Name() != g.pkg {
			// foreign struct with unexported fields: mirror it and cast
			g.imports["unsafe"] = true
			var decl []string
			for i := 0; i < s.NumFields(); i++ {
				decl = append(decl, s.Field(i).Name()+" "+g.typeName(s.Field(i).Type()))
			}
			return "*(*" + g.typeName(t) + ")(unsafe.Pointer(&struct{" + strings.Join(decl, "; ") + "}{" + strings.Join(fs, ", ") + "}))"
		}
		return g.typeName(t) + "{" + strings.Join(fs, ", ") + "}"
	}
	g.fail = "value of type " + t.String() + " cannot be rebuilt from a model"
	return ""
}

func (g *replayGen) typeName(t types.Type) string {
	return types.TypeString(t, func(p *types.Package) string {
		if p.Name() == g.pkg {
			return ""
		}
		g.imports[p.Path()] = true
		return p.Name()
	})
}

type replayPlan struct {
	setup   []string
	call    string
	checks  []string
	imports map[string]bool
}

// replayObligation tries to confirm a failed obligation on the real code. It always writes a replay file.
func replayObligation(repo, dir, prop string, r *FuncResult, o *Obligation, opt solveOpts) (string, bool) {
	info := map[string]interface{}{
		"obligation": o.Name, "kind": o.Kind, "function": o.Func, "clause": o.Text, "position": o.Pos, "build_tags": r.Tags,
		"solver_result": o.Result, "backend": o.Backend, "solver_output": o.Detail, "smt_file": o.SmtFile,
	}
	finish := func(replayed bool, why string) (string, bool) {
		info["replayed_on_real_code"] = replayed
		info["replay_note"] = why
		return writeReplay(dir, prop, o.Name+"."+smtName(r.Tags), info), replayed
	}
	if o.Result != "sat" {
		return finish(false, "the solver gave no model ("+o.Result+"); the obligation was discharged on the unchanged tree and is now undecided")
	}
	if r.Kind != "func" || len(o.Inputs) == 0 {
		// still record the model of the scalar inputs if any
		return finish(false, "obligation is not attached to replayable function inputs")
	}
	src, why := buildReplayTest(repo, r, o, info)
	if src == "" {
		return finish(false, "model found but inputs are not reconstructible: "+why)
	}
	info["test_source"] = src
	out, ok := runReplayTest(repo, r, o, src)
	info["test_output"] = out
	if ok {
		return finish(true, "the real function reproduces the verifier's counterexample (outputs equal the model's, hence the clause is false on the real code)")
	}
	return finish(false, "the generated test did not reproduce the model on the real code")
}

func pkgDirOfKey(key string) (dir, pkg string) {
	pkg = strings.SplitN(key, ".", 2)[0]
	switch pkg {
	case "event":
		return "ecs/event", pkg
	}
	return pkg, pkg
}

// buildReplayTest renders an in-package test from the model.
func buildReplayTest(repo string, r *FuncResult, o *Obligation, info map[string]interface{}) (string, string) {
	dirRel, pkg := pkgDirOfKey(r.Key)
	_ = dirRel
	g := &replayGen{pkg: pkg, imports: map[string]bool{"testing": true}}
	type inp struct {
		in  ReplayInput
		ptr bool
	}
	if o.Sig == nil {
		return "", "no signature recorded"
	}
	sig := o.Sig
	params := o.Inputs
	// pass 1: collect terms
	collect := func(build bool) ([]string, []string, string, []string) {
		var setup, args, checks []string
		recvExpr := ""
		for i, in := range params {
			if in.Name == "$result" {
				continue
			}
			var pt types.Type
			isRecv := false
			if sig.Recv() != nil {
				if i == 0 {
					pt = sig.Recv().Type()
					isRecv = true
				} else {
					pt = sig.Params().At(i - 1).Type()
				}
			} else {
				pt = sig.Params().At(i).Type()
			}
			vn := fmt.Sprintf("a%d", i)
			var expr string
			if p, ok := under(pt).(*types.Pointer); ok && classOf(p.Elem()) == CStruct {
				if !build {
					g.need(in.Val.T)
				}
				if in.Pre == nil {
					g.fail = "pointer parameter without captured content"
					break
				}
				content := g.lit(*in.Pre, p.Elem(), build)
				if build {
					if g.vals[in.Val.T].Sign() == 0 {
						expr = "(" + g.typeName(pt) + ")(nil)"
					} else {
						// aliasing with an earlier pointer parameter
						alias := ""
						for j := 0; j < i; j++ {
							if params[j].Val.K == VScalar && params[j].Pre != nil && g.vals[params[j].Val.T] != nil && g.vals[params[j].Val.T].Cmp(g.vals[in.Val.T]) == 0 {
								alias = fmt.Sprintf("a%d", j)
							}
						}
						if alias != "" {
							expr = alias
						} else {
							setup = append(setup, fmt.Sprintf("v%d := %s", i, content))
							expr = fmt.Sprintf("&v%d", i)
						}
					}
				}
				if in.Post != nil {
					post := g.lit(*in.Post, p.Elem(), build)
					if build && g.vals[in.Val.T].Sign() != 0 {
						checks = append(checks, fmt.Sprintf("if *%s != (%s) { t.Fatalf(\"MODEL-MISMATCH final *%s: real %%v, model %%v\", *%s, %s) }", vn, post, in.Name, vn, post))
					}
				}
			} else {
				expr = g.lit(in.Val, pt, build)
			}
			if g.fail != "" {
				break
			}
			if build {
				setup = append(setup, fmt.Sprintf("%s := %s", vn, expr))
				setup = append(setup, "_ = "+vn)
			}
			if isRecv {
				recvExpr = vn
			} else {
				args = append(args, vn)
			}
		}
		return setup, args, recvExpr, checks
	}
	collect(false)
	// results
	var resVal *Val
	for i := range params {
		if params[i].Name == "$result" {
			resVal = &params[i].Val
		}
	}
	res := sig.Results()
	resLit := func(build bool) []string {
		var out []string
		if resVal == nil || o.Kind != "ensures" && o.Kind != "panics_if" {
			return nil
		}
		switch res.Len() {
		case 0:
		case 1:
			out = append(out, g.lit(*resVal, res.At(0).Type(), build))
		default:
			for i := 0; i < res.Len(); i++ {
				out = append(out, g.lit(resVal.F[i], res.At(i).Type(), build))
			}
		}
		return out
	}
	expectPanic := strings.HasPrefix(o.Kind, "safe/")
	if !expectPanic {
		resLit(false)
	}
	if g.fail != "" {
		return "", g.fail
	}
	vals, solver := getValues(r, o, dedupe(g.terms), 20)
	if vals == nil {
		return "", "no solver returned a model with values"
	}
	g.vals = vals
	mv := map[string]string{}
	for k, v := range vals {
		if len(k) < 60 {
			mv[k] = v.String()
		}
	}
	info["model"] = mv
	info["model_from"] = solver
	setup, args, recvExpr, checks := collect(true)
	var exp []string
	if !expectPanic {
		exp = resLit(true)
	}
	if g.fail != "" {
		return "", g.fail
	}
	fname := r.Key[strings.LastIndex(r.Key, ".")+1:]
	call := fname + "(" + strings.Join(args, ", ") + ")"
	if sig.Variadic() && len(args) > 0 {
		call = fname + "(" + strings.Join(args[:len(args)-1], ", ")
		if len(args) > 1 {
			call += ", "
		}
		call += args[len(args)-1] + "...)"
	}
	if recvExpr != "" {
		call = recvExpr + "." + call
	}
	var sb strings.Builder
	sb.WriteString("package " + pkg + "\n\nimport (\n")
	for im := range g.imports {
		sb.WriteString("\t\"" + im + "\"\n")
	}
	sb.WriteString(")\n\nfunc TestGovcReplay(t *testing.T) {\n")
	for _, s := range setup {
		sb.WriteString("\t" + s + "\n")
	}
	if expectPanic {
		sb.WriteString("\tdefer func() {\n\t\tif r := recover(); r != nil {\n\t\t\tt.Logf(\"REPRODUCED: real code panics: %v\", r)\n\t\t\treturn\n\t\t}\n\t\tt.Fatalf(\"MODEL-MISMATCH: no panic\")\n\t}()\n")
		sb.WriteString("\t" + call + "\n")
	} else {
		switch res.Len() {
		case 0:
			sb.WriteString("\t" + call + "\n")
		default:
			var rs []string
			for i := 0; i < res.Len(); i++ {
				rs = append(rs, fmt.Sprintf("r%d", i))
			}
			sb.WriteString("\t" + strings.Join(rs, ", ") + " := " + call + "\n")
			for i := range rs {
				sb.WriteString(fmt.Sprintf("\tif r%d != (%s) { t.Fatalf(\"MODEL-MISMATCH result %d: real %%v, model %%v\", r%d, %s) }\n", i, exp[i], i, i, exp[i]))
			}
		}
		for _, c := range checks {
			sb.WriteString("\t" + c + "\n")
		}
		sb.WriteString("\tt.Logf(\"REPRODUCED: real outputs equal the counterexample of obligation " + o.Name + "\")\n")
	}
	sb.WriteString("}\n")
	return sb.String(), ""
}

func dedupe(xs []string) []string {
	seen := map[string]bool{}
	var out []string
	for _, x := range xs {
		if !seen[x] {
			seen[x] = true
			out = append(out, x)
		}
	}
	return out
}

// runReplayTest injects the test with -overlay and runs it against the real package.
func runReplayTest(repo string, r *FuncResult, o *Obligation, src string) (string, bool) {
	dirRel, _ := pkgDirOfKey(r.Key)
	tmp, err := os.MkdirTemp("", "govc-replay-")
	if err != nil {
		return err.Error(), false
	}
	defer os.RemoveAll(tmp)
	testFile := filepath.Join(tmp, "zz_govc_replay_test.go")
	os.WriteFile(testFile, []byte(src), 0o644)
	ov := map[string]map[string]string{"Replace": {filepath.Join(repo, dirRel, "zz_govc_replay_test.go"): testFile}}
	ovData, _ := json.Marshal(ov)
	ovFile := filepath.Join(tmp, "overlay.json")
	os.WriteFile(ovFile, ovData, 0o644)
	args := []string{"test", "-overlay", ovFile, "-vet=off", "-count=1", "-timeout", "60s", "-run", "^TestGovcReplay$", "-v"}
	tags := strings.ReplaceAll(r.Tags, "verif,", "")
	if tags != "verif" && tags != "" {
		args = append(args, "-tags", tags)
	}
	args = append(args, "./"+dirRel)
	ctx, cancel := context.WithTimeout(context.Background(), 120*time.Second)
	defer cancel()
	cmd := exec.CommandContext(ctx, "go", args...)
	cmd.Dir = repo
	cmd.Env = append(os.Environ(), "GOFLAGS=-mod=mod", "GOWORK=off", "GOPROXY=off", "GOSUMDB=off", "GOTOOLCHAIN=local")
	var out bytes.Buffer
	cmd.Stdout = &out
	cmd.Stderr = &out
	err = cmd.Run()
	s := out.String()
	if len(s) > 4000 {
		s = s[:4000]
	}
	return s, err == nil && strings.Contains(s, "REPRODUCED")
}
