package main

import (
	"flag"
	"fmt"
	"os"
	"strings"
)

func main() {
	if len(os.Args) < 2 {
		fmt.Fprintln(os.Stderr, "usage: govc <verify|check|list|replay|selftest> ...")
		os.Exit(2)
	}
	switch os.Args[1] {
	case "verify":
		cmdVerify(os.Args[2:])
	case "list":
		cmdList(os.Args[2:])
	case "check":
		cmdCheck(os.Args[2:])
	case "entries":
		p, err := loadProgram("/repo", "verif")
		if err != nil {
			fmt.Println(err)
			os.Exit(2)
		}
		db, err := loadSpecs("/repo", "verif")
		if err != nil {
			fmt.Println(err)
			os.Exit(2)
		}
		es, _ := lockfastEntries(p, db)
		for _, f := range es {
			fmt.Println(originKey(f))
		}
	default:
		fmt.Fprintln(os.Stderr, "unknown command", os.Args[1])
		os.Exit(2)
	}
}

func cmdList(args []string) {
	fs := flag.NewFlagSet("list", flag.ExitOnError)
	repo := fs.String("repo", "/repo", "repository")
	tags := fs.String("tags", "verif", "build tags")
	fs.Parse(args)
	p, err := loadProgram(*repo, *tags)
	if err != nil {
		fmt.Println("load error:", err)
		os.Exit(2)
	}
	for _, f := range p.AllFns {
		fmt.Println(shortName(f))
	}
}

// cmdVerify: debugging entry: verify named functions/lemmas and print every obligation.
func cmdVerify(args []string) {
	fs := flag.NewFlagSet("verify", flag.ExitOnError)
	repo := fs.String("repo", "/repo", "repository")
	tags := fs.String("tags", "verif", "build tags")
	out := fs.String("out", "/verif/out/vc", "SMT output dir")
	timeout := fs.Int("t", 20, "solver timeout (s)")
	jobs := fs.Int("j", 8, "parallel obligations")
	nogaps := fs.Bool("nogaps", false, "do not assume known-gap preconditions")
	verbose := fs.Bool("v", false, "print passing obligations too")
	fs.Parse(args)
	p, err := loadProgram(*repo, *tags)
	if err != nil {
		fmt.Println("load error:", err)
		os.Exit(2)
	}
	db, err := loadSpecs(*repo, *tags)
	if err != nil {
		fmt.Println("contract error:", err)
		os.Exit(2)
	}
	var results []*FuncResult
	names := fs.Args()
	if len(names) == 1 && names[0] == "all" {
		names = nil
		for k := range db.Funcs {
			if !db.Funcs[k].IsIface && p.Funcs[k] != nil {
				names = append(names, k)
			}
		}
		for k := range db.Lemmas {
			names = append(names, "lemma."+k)
		}
	}
	for _, n := range names {
		if strings.HasPrefix(n, "lemma.") {
			results = append(results, verifyLemma(p, db, strings.TrimPrefix(n, "lemma.")))
		} else {
			results = append(results, verifyFunc(p, db, n, !*nogaps))
		}
	}
	discharge(results, solveOpts{outDir: *out, seed: 1, timeoutS: *timeout, jobs: *jobs})
	bad := 0
	for _, r := range results {
		if r.Err != "" {
			fmt.Printf("ERROR %s: %s\n", r.Key, r.Err)
			bad++
		}
		okN := 0
		for _, o := range r.Obls {
			if o.ok() {
				okN++
				if *verbose {
					fmt.Printf("  ok   %-60s %s %s %dms\n", o.Name, o.Result, o.Backend, o.Ms)
				}
			} else {
				bad++
				fmt.Printf("  FAIL %-60s %s (%s) [%s] %s\n      %s\n", o.Name, o.Result, o.Backend, o.Pos, o.SmtFile, o.Text)
			}
		}
		fmt.Printf("%s: %d/%d obligations ok; inlined=%v\n", r.Key, okN, len(r.Obls), r.Inlined)
	}
	if bad > 0 {
		os.Exit(1)
	}
}
