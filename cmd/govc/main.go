package main

import (
	"encoding/json"
	"flag"
	"fmt"
	"os"
	"strings"
)

func main() {
	if len(os.Args) < 2 {
		fmt.Fprintln(os.Stderr, "usage: govc <verify|check|list|replay|selftest> ...")
		os.Exit(2)
	}
	switch os.Args[1] {
	case "verify":
		cmdVerify(os.Args[2:])
	case "list":
		cmdList(os.Args[2:])
	case "check":
		cmdCheck(os.Args[2:])
	case "replay":
		cmdReplay(os.Args[2:])
	case "entries":
		p, err := loadProgram("/repo", "verif")
		if err != nil {
			fmt.Println(err)
			os.Exit(2)
		}
		db, err := loadSpecs("/repo", "verif")
		if err != nil {
			fmt.Println(err)
			os.Exit(2)
		}
		es, _ := lockfastEntries(p, db)
		for _, f := range es {
			fmt.Println(originKey(f))
		}
	default:
		fmt.Fprintln(os.Stderr, "unknown command", os.Args[1])
		os.Exit(2)
	}
}

func cmdList(args []string) {
	fs := flag.NewFlagSet("list", flag.ExitOnError)
	repo := fs.String("repo", "/repo", "repository")
	tags := fs.String("tags", "verif", "build tags")
	fs.Parse(args)
	p, err := loadProgram(*repo, *tags)
	if err != nil {
		fmt.Println("load error:", err)
		os.Exit(2)
	}
	for _, f := range p.AllFns {
		fmt.Println(shortName(f))
	}
}

// cmdVerify: debugging entry: verify named functions/lemmas and print every obligation.
func cmdVerify(args []string) {
	fs := flag.NewFlagSet("verify", flag.ExitOnError)
	repo := fs.String("repo", "/repo", "repository")
	tags := fs.String("tags", "verif", "build tags")
	out := fs.String("out", "/verif/out/vc", "SMT output dir")
	timeout := fs.Int("t", 20, "solver timeout (s)")
	jobs := fs.Int("j", 8, "parallel obligations")
	nogaps := fs.Bool("nogaps", false, "do not assume known-gap preconditions")
	verbose := fs.Bool("v", false, "print passing obligations too")
	fs.Parse(args)
	p, err := loadProgram(*repo, *tags)
	if err != nil {
		fmt.Println("load error:", err)
		os.Exit(2)
	}
	db, err := loadSpecs(*repo, *tags)
	if err != nil {
		fmt.Println("contract error:", err)
		os.Exit(2)
	}
	var results []*FuncResult
	names := fs.Args()
	if len(names) == 1 && names[0] == "all" {
		names = nil
		for k := range db.Funcs {
			if !db.Funcs[k].IsIface && p.Funcs[k] != nil {
				names = append(names, k)
			}
		}
		for k := range db.Lemmas {
			names = append(names, "lemma."+k)
		}
	}
	for _, n := range names {
		if strings.HasPrefix(n, "lemma.") {
			results = append(results, verifyLemma(p, db, strings.TrimPrefix(n, "lemma.")))
		} else {
			results = append(results, verifyFunc(p, db, n, !*nogaps))
		}
	}
	discharge(results, solveOpts{outDir: *out, seed: 1, timeoutS: *timeout, jobs: *jobs})
	bad := 0
	for _, r := range results {
		if r.Err != "" {
			fmt.Printf("ERROR %s: %s\n", r.Key, r.Err)
			bad++
		}
		okN := 0
		for _, o := range r.Obls {
			if o.ok() {
				okN++
				if *verbose {
					fmt.Printf("  ok   %-60s %s %s %dms\n", o.Name, o.Result, o.Backend, o.Ms)
				}
			} else {
				bad++
				fmt.Printf("  FAIL %-60s %s (%s) [%s] %s\n      %s\n", o.Name, o.Result, o.Backend, o.Pos, o.SmtFile, o.Text)
			}
		}
		fmt.Printf("%s: %d/%d obligations ok; inlined=%v\n", r.Key, okN, len(r.Obls), r.Inlined)
	}
	if bad > 0 {
		os.Exit(1)
	}
}


// cmdReplay: re-examine a recorded violation against the CURRENT /repo.
// If the record carries a generated test (a model that was reproduced on the real code), the test is run again;
// otherwise the function named in the record is re-verified and the recorded obligation is looked up.
// Exit 1 if the violation is still there, 0 if it is gone, 2 on usage errors.
func cmdReplay(args []string) {
	fs := flag.NewFlagSet("replay", flag.ExitOnError)
	repo := fs.String("repo", "/repo", "repository")
	fs.Parse(args)
	if fs.NArg() != 1 {
		fmt.Fprintln(os.Stderr, "usage: govc replay [-repo DIR] <replay.json>")
		os.Exit(2)
	}
	data, err := os.ReadFile(fs.Arg(0))
	if err != nil {
		fmt.Fprintln(os.Stderr, err)
		os.Exit(2)
	}
	var rec map[string]interface{}
	if err := json.Unmarshal(data, &rec); err != nil {
		fmt.Fprintln(os.Stderr, "not a replay record:", err)
		os.Exit(2)
	}
	str := func(k string) string { s, _ := rec[k].(string); return s }
	fmt.Printf("obligation: %s\nclause:     %s\nposition:   %s\nrecorded:   %s (%s)\n", str("obligation"), str("clause"), str("position"), str("solver_result"), str("backend"))
	if n := str("replay_note"); n != "" {
		fmt.Println("note:       " + n)
	}
	if f := str("finding"); f != "" {
		fmt.Println("finding:    " + f)
	}
	if r := str("reason"); r != "" {
		fmt.Println("reason:     " + r)
	}
	tags := str("build_tags")
	if tags == "" {
		tags = str("tags")
	}
	if tags == "" {
		tags = "verif"
	}
	fn := str("function")
	if src := str("test_source"); src != "" && fn != "" {
		out, ok := runReplayTest(*repo, &FuncResult{Key: fn, Tags: tags}, nil, src)
		fmt.Println(out)
		if ok {
			fmt.Println("REPLAY: the recorded input still reproduces the violation on the real code")
			os.Exit(1)
		}
		fmt.Println("REPLAY: the recorded input no longer reproduces the violation; re-verifying the function")
	}
	if fn == "" || strings.HasSuffix(fn, "#lockfast") || str("kind") == "scan" || str("kind") == "" {
		fmt.Println("REPLAY: no single function to re-verify for this record; run the property check again")
		os.Exit(1)
	}
	p, err := loadProgram(*repo, tags)
	if err != nil {
		fmt.Println("load error:", err)
		os.Exit(2)
	}
	db, err := loadSpecs(*repo, tags)
	if err != nil {
		fmt.Println("contract error:", err)
		os.Exit(2)
	}
	var r *FuncResult
	if strings.HasPrefix(fn, "lemma.") {
		r = verifyLemma(p, db, strings.TrimPrefix(fn, "lemma."))
	} else {
		r = verifyFunc(p, db, fn, true)
	}
	discharge([]*FuncResult{r}, solveOpts{outDir: "/verif/out/vc/replay", seed: 1, timeoutS: 40, jobs: 8})
	if r.Err != "" {
		fmt.Println("REPLAY: " + fn + " cannot be verified: " + r.Err)
		os.Exit(1)
	}
	for _, o := range r.Obls {
		if o.Name == str("obligation") {
			if o.ok() {
				fmt.Printf("REPLAY: %s is discharged on the current tree (%s, %s)\n", o.Name, o.Result, o.Backend)
				os.Exit(0)
			}
			fmt.Printf("REPLAY: %s is still undischarged on the current tree (%s, %s)\n%s\n", o.Name, o.Result, o.Backend, o.Detail)
			os.Exit(1)
		}
	}
	fmt.Println("REPLAY: the obligation no longer exists under this name; run the property check again")
	os.Exit(1)
}
