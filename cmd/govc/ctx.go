package main

import (
	"fmt"
	"go/token"
	"go/types"
	"os"
	"sort"
	"strings"
)

// Obligation is one proof goal: script[:Prefix] are the declarations, definitions and
// assumptions known at the program point; Goal is the formula that must follow from them.
type Obligation struct {
	Name   string
	Kind   string // ensures, requires, inv, safe/idx, ...
	Func   string
	Pos    string
	Prefix int
	Goal   string
	Text   string // source text of the clause
	Gap    string // known gap this obligation is checked under (informational)
	Expect string // "unsat" normally; "sat" for covers
	Unless string // covers: the cover may be refuted if this condition (the region's entry) is refuted too (dead code under the preconditions)
	UnlessPrefix int
	// replay info
	Inputs []ReplayInput
	Sig    *types.Signature
	// results filled by the solver stage
	Result  string
	Backend string
	Ms      int64
	Detail  string
	SmtFile string
	Model   map[string]string
}

type ReplayInput struct {
	Name string
	Val  Val
	Pre  *Val // content of the pointee before the call (pointer-to-flat-struct parameters)
	Post *Val // content of the pointee at the normal exit
}

// State is the symbolic memory at a program point.
type State struct {
	epoch int               // number of whole-heap havocs on this path (absent heap variables read the epoch's initial constant)
	heap  map[string]string // heap variable -> current term (absent: initial)
	reach string
	now   string
	dirty string
}

func (s *State) clone() *State {
	n := &State{heap: make(map[string]string, len(s.heap)), reach: s.reach, now: s.now, dirty: s.dirty, epoch: s.epoch}
	for k, v := range s.heap {
		n.heap[k] = v
	}
	return n
}

type heapInfo struct {
	sort  string // sort of the whole heap variable
	vsort string // sort of a cell value
	keys  int
	ghost bool
}

type Ctx struct {
	P      *Program
	DB     *SpecDB
	script []string
	names  map[string]int
	heaps  map[string]*heapInfo
	horder []string
	subs   map[string]bool
	subK   map[string]int
	tags   map[string]int
	tagTyp map[int]types.Type
	strs   map[string]int
	obls   []*Obligation
	notes  map[string]bool // assumptions/abstractions used
	fn     string          // top-level function key
	st0    *State          // pre-state of the top-level function
	ufs    map[string]bool
	fresh  map[string]bool // refs allocated by the function under analysis
	// loop modified sets discovered so far: key fn#headerIndex -> heap names
	loopMods   map[string]map[string]*modInfo
	restart    bool
	inlined    map[string]bool
	depth      int
	panics     []*PanicExit
	gaps       map[string]bool // active known-gap names (assumed)
	elemAx     bool
	tolerant   bool            // unsupported instructions become "unreachable" obligations
	lfMode     bool            // lockfast mode
	lfSet      map[string]bool // structural entry points (lockfast callees)
	lfWorld    string
	feasChecks int
	epochs   int
	known      map[string]bool // every name introduced so far
	loopClean  map[string]bool // loops whose body writes no world state (discovered, then used on the next pass)
	writes     []writeRec      // every store to a heap variable, in script order
	facts      map[string]bool // goals already assumed or demanded (deduplication of safety checks)
	curPos     token.Pos
}

type writeRec struct {
	heap string
	key  string // first key of the written cell; "" when a whole heap variable was replaced
	pos  int
}

type modInfo struct {
	whole bool
	keys  []string
}

type PanicExit struct {
	st       *State
	reach    string
	dirty    string
	pos      string
	explicit bool
	prefix   int
	callee   string
}

func newCtx(p *Program, db *SpecDB, fn string, loopMods map[string]map[string]*modInfo) *Ctx {
	c := &Ctx{P: p, DB: db, names: map[string]int{}, heaps: map[string]*heapInfo{}, subs: map[string]bool{}, subK: map[string]int{}, tags: map[string]int{}, tagTyp: map[int]types.Type{},
		strs: map[string]int{}, notes: map[string]bool{}, fn: fn, ufs: map[string]bool{}, fresh: map[string]bool{}, loopMods: loopMods, inlined: map[string]bool{}, gaps: map[string]bool{}, facts: map[string]bool{}, known: map[string]bool{}, loopClean: map[string]bool{}}
	c.emit("(declare-fun birth (Int) Int)")
	c.emit("(declare-fun kind (Int) Int)")
	c.emit("(declare-fun elem (Int (_ BitVec 64)) Int)")
	c.emit("(declare-fun elemD (Int) Int)")
	c.emit("(declare-fun elemI (Int) (_ BitVec 64))")
	c.emit("(define-fun isElemOf ((r Int) (d Int)) Bool (and (= (kind r) 1) (= (elemD r) d) (= r (elem (elemD r) (elemI r)))))")
	c.emit("(declare-const now0 Int)")
	return c
}

func (c *Ctx) emit(s string) { c.script = append(c.script, s) }

func (c *Ctx) note(s string) { c.notes[s] = true }

func smtName(s string) string {
	var sb strings.Builder
	for _, ch := range s {
		switch {
		case ch >= 'a' && ch <= 'z', ch >= 'A' && ch <= 'Z', ch >= '0' && ch <= '9', ch == '_', ch == '.', ch == '$', ch == '!', ch == '#', ch == '@':
			sb.WriteRune(ch)
		default:
			sb.WriteRune('_')
		}
	}
	return sb.String()
}

func (c *Ctx) uniq(hint string) string {
	h := smtName(hint)
	if h == "" {
		h = "v"
	}
	switch h {
	case "elem", "kind", "birth", "elemD", "elemI", "isElemOf", "now0", "select", "store", "and", "or", "not", "ite", "true", "false", "let", "forall", "exists":
		h += "_" // reserved by the prelude / SMT-LIB
	}
	c.names[h]++
	n := h
	if c.names[h] > 1 {
		n = fmt.Sprintf("%s!%d", h, c.names[h])
	}
	c.known[n] = true
	return n
}

func (c *Ctx) declare(hint, sort string) string {
	n := c.uniq(hint)
	c.emit(fmt.Sprintf("(declare-const %s %s)", n, sort))
	return n
}

// define names a term; small terms are returned as they are.
func (c *Ctx) define(hint, sort, term string) string {
	if len(term) < 40 && !strings.Contains(term, "(ite") {
		return term
	}
	n := c.uniq(hint)
	c.emit(fmt.Sprintf("(define-fun %s () %s %s)", n, sort, term))
	return n
}

func (c *Ctx) assume(term, why string) {
	if term == "true" {
		return
	}
	c.facts[term] = true
	c.emit("(assert " + term + ")")
}

func (c *Ctx) assumeUnder(st *State, term string) {
	c.assume(implies(st.reach, term), "")
}

func (c *Ctx) oblige(st *State, kind, name, goal, text string) *Obligation {
	if c.lfMode && kind != "lockfast" && kind != "unreachable" {
		// lockfast mode decides only "nothing is written before an exit"; run-time checks, callee
		// preconditions and invariants are the business of the functional contracts and are assumed here.
		c.assume(implies(st.reach, goal), "")
		return &Obligation{}
	}
	if parts := splitAnd(goal); len(parts) > 1 && len(parts) <= 16 && !strings.HasPrefix(kind, "safe/") {
		var last *Obligation
		for i, p := range parts {
			last = c.oblige(st, kind, fmt.Sprintf("%s.%c", name, 'a'+rune(i%26))+strings.Repeat("'", i/26), p, text)
		}
		return last
	}
	g := implies(st.reach, goal)
	o := &Obligation{Name: name, Kind: kind, Func: c.fn, Prefix: len(c.script), Goal: g, Text: text, Expect: "unsat", Pos: c.P.pos(c.curPos)}
	c.obls = append(c.obls, o)
	// once demanded, a run-time check or callee precondition may be assumed afterwards; exit-time
	// clauses are independent of each other and are not added (keeps later queries small)
	switch kind {
	case "ensures", "frame", "panics_if", "on_panic", "lockfast", "lemma", "inv":
	default:
		c.assume(g, "")
	}
	return o
}

// ---------- heap ----------

func (c *Ctx) heapDecl(name, vsort string, keys int, ghost bool) *heapInfo {
	if h, ok := c.heaps[name]; ok {
		return h
	}
	s := "(Array Int " + vsort + ")"
	if keys == 2 {
		s = "(Array Int (Array " + sortIdx + " " + vsort + "))"
	}
	h := &heapInfo{sort: s, vsort: vsort, keys: keys, ghost: ghost}
	c.heaps[name] = h
	c.horder = append(c.horder, name)
	c.emit(fmt.Sprintf("(declare-const %s %s)", heap0Name(name), s))
	return h
}

func heap0Name(name string) string { return "H0." + smtName(name) }

func (c *Ctx) hget(st *State, name string) string {
	if t, ok := st.heap[name]; ok {
		return t
	}
	if st.epoch == 0 {
		return heap0Name(name)
	}
	// first use after a whole-heap havoc: an unconstrained constant of that epoch
	n := fmt.Sprintf("He%d.%s", st.epoch, smtName(name))
	if !c.known[n] {
		c.known[n] = true
		c.emit(fmt.Sprintf("(declare-const %s %s)", n, c.heaps[name].sort))
	}
	return n
}

// havocAll: the callee's frame is unknown: every heap variable gets an unconstrained value.
func (c *Ctx) havocAll(st *State) {
	c.epochs++
	st.epoch = c.epochs
	st.heap = map[string]string{}
	nn := c.declare("now.h", "Int")
	c.assume(fmt.Sprintf("(>= %s %s)", nn, st.now), "")
	st.now = nn
}

func (c *Ctx) hset(st *State, name, term string) {
	h := c.heaps[name]
	key := ""
	if strings.HasPrefix(term, "(store "+c.hget(st, name)+" ") {
		key = firstArg(term[len("(store "+c.hget(st, name)+" "):])
	}
	c.writes = append(c.writes, writeRec{name, key, len(c.script)})
	st.heap[name] = c.define("H."+name, h.sort, term)
}

func (c *Ctx) newState() *State {
	return &State{heap: map[string]string{}, reach: "true", now: "now0", dirty: "false"}
}

func fieldHeap(st types.Type, fname string) string { return "F$" + typeKey(st) + "$" + fname }
func elemHeap(et types.Type) string                { return "S$" + typeKey(et) }

func isGround(t string) bool { return !strings.Contains(t, "q.") }

// subRef gives the reference of a struct embedded by value as field fname of the object at ref.
// Injectivity/kind/birth facts are emitted as ground instances; the quantified axiom is only
// added when the argument contains a bound variable.
func (c *Ctx) subRef(owner types.Type, fname string, ref string) string {
	fn := "sub$" + typeKey(owner) + "$" + fname
	if c.subK[fn] == 0 {
		c.subK[fn] = len(c.subK) + 2
		c.emit(fmt.Sprintf("(declare-fun %s (Int) Int)", fn))
		c.emit(fmt.Sprintf("(declare-fun inv.%s (Int) Int)", fn))
	}
	k := c.subK[fn]
	term := "(" + fn + " " + ref + ")"
	if isGround(ref) {
		if !c.subs[term] {
			c.subs[term] = true
			c.emit(fmt.Sprintf("(assert (and (= (inv.%s %s) %s) (= (kind %s) %d) (= (birth %s) (birth %s)) (not (= %s 0))))", fn, term, ref, term, k, term, ref, term))
		}
	} else if !c.subs["Q"+fn] {
		c.subs["Q"+fn] = true
		c.emit(fmt.Sprintf("(assert (forall ((x Int)) (! (and (= (inv.%s (%s x)) x) (= (kind (%s x)) %d) (= (birth (%s x)) (birth x)) (not (= (%s x) 0))) :pattern ((%s x)))))", fn, fn, fn, k, fn, fn, fn))
	}
	return term
}

func (c *Ctx) elemRef(data, idx string) string {
	term := "(elem " + data + " " + idx + ")"
	if isGround(term) {
		if !c.subs[term] {
			c.subs[term] = true
			c.emit(fmt.Sprintf("(assert (and (= (elemD %s) %s) (= (elemI %s) %s) (= (kind %s) 1) (= (birth %s) (birth %s)) (not (= %s 0))))", term, data, term, idx, term, term, data, term))
		}
	} else if !c.elemAx {
		c.elemAx = true
		c.emit("(assert (forall ((d Int) (i (_ BitVec 64))) (! (and (= (elemD (elem d i)) d) (= (elemI (elem d i)) i) (= (kind (elem d i)) 1) (= (birth (elem d i)) (birth d)) (not (= (elem d i) 0))) :pattern ((elem d i)))))")
	}
	return term
}

// fieldLoc: location of the non-struct field fname of the object of struct type owner at ref.
func (c *Ctx) fieldLoc(owner types.Type, f *types.Var, ref string) *Loc {
	name := fieldHeap(owner, f.Name())
	for _, lf := range leavesOf(f.Type()) {
		c.heapDecl(name+lf.suffix, lf.sort, 1, false)
	}
	return &Loc{heap: name, keys: []string{ref}, typ: f.Type()}
}

func (c *Ctx) elemLoc(et types.Type, data, idx string) *Loc {
	name := elemHeap(et)
	for _, lf := range leavesOf(et) {
		c.heapDecl(name+lf.suffix, lf.sort, 2, false)
	}
	return &Loc{heap: name, keys: []string{data, idx}, typ: et}
}

func (c *Ctx) selectCell(st *State, name string, keys []string) string {
	t := c.hget(st, name)
	for _, k := range keys {
		t = "(select " + t + " " + k + ")"
	}
	return t
}

func (c *Ctx) storeCell(st *State, name string, keys []string, v string) {
	t := c.hget(st, name)
	var nt string
	if len(keys) == 1 {
		nt = fmt.Sprintf("(store %s %s %s)", t, keys[0], v)
	} else {
		nt = fmt.Sprintf("(store %s %s (store (select %s %s) %s %s))", t, keys[0], t, keys[0], keys[1], v)
	}
	c.hset(st, name, nt)
	if worldStore(name, keys[0]) {
		if os.Getenv("GOVC_DEBUG") != "" && !c.isFreshRef(keys[0]) {
			fmt.Fprintf(os.Stderr, "dirty: store %s key %s at %s\n", name, keys[0], c.P.pos(c.curPos))
		}
		c.markDirty(st, keys[0])
	}
}

func (c *Ctx) markDirty(st *State, key string) {
	if c.isFreshRef(key) {
		return
	}
	if os.Getenv("GOVC_DEBUG") != "" {
		fmt.Fprintf(os.Stderr, "dirty: mark key %s at %s\n", key, c.P.pos(c.curPos))
	}
	st.dirty = "true"
}

// worldStore: does a store to heap variable `name` at key `key` change world state?
// Ownership is read off the address: the root object of a chain of embedded sub-objects decides.
// Value types (Mask, ID, Entity) and the API helper objects of ecs (builders, queries, filters, events),
// and everything in packages generic/filter/listener, are not world state; slice and map contents are
// world state unless their backing store was allocated by the function under analysis.
var nonWorldTypes = map[string]bool{"ecs.Mask": true, "ecs.ID": true, "ecs.Entity": true, "ecs.ResID": true, "ecs.Query": true, "ecs.EntityEvent": true,
	"ecs.Builder": true, "ecs.Batch": true, "ecs.Relations": true, "ecs.MaskFilter": true, "ecs.RelationFilter": true, "ecs.CachedFilter": true,
	"ecs.Component": true, "ecs.batchArchetypes": true, "ecs.EntityDump": true, "ecs.Config": true, "ecs.CompInfo": true, "ecs.singleArchetype": true, "ecs.componentType": true, "ecs.cacheEntry": true, "ecs.Cache": true}

func worldStore(name, key string) bool {
	if strings.HasPrefix(name, "G$") && !strings.HasPrefix(name, "G$ecs.") && !strings.HasPrefix(name, "G$generic.") {
		return false // ghost field
	}
	if strings.HasPrefix(name, "GG$") {
		return false
	}
	if name == "F$ecs.Cache$getArchetypes" {
		return false // lazily installed callback, not structural
	}
	// sub-trees of the world that are not structural state: the lock itself, resources (C20),
	// the filter cache (registration of filters is not a structural operation), statistics
	for _, p := range []string{"(sub$ecs.World$locks ", "(sub$ecs.World$resources ", "(sub$ecs.World$filterCache ", "(sub$ecs.World$stats "} {
		if strings.Contains(key, p) {
			return false
		}
	}
	if name == "F$ecs.World$listener.t" || name == "F$ecs.World$listener.v" {
		return false
	}
	// filter-cache entries live in a slice and in two maps of their own key types
	if strings.HasPrefix(name, "F$ecs.cacheEntry$") || strings.Contains(key, "(sub$ecs.cacheEntry$") || strings.HasPrefix(name, "M$uint32$int.") || strings.HasPrefix(name, "M$ptr_ecs.archetype$int.") || name == "S$uint32" {
		// (S$uint32: the only []uint32 owned by a world is the filter-id pool of the cache)
		return false
	}
	owner := ""
	k := key
	for strings.HasPrefix(k, "(sub$") {
		i := strings.Index(k, " ")
		fn := k[5:i] // T$field
		if j := strings.LastIndex(fn, "$"); j >= 0 {
			owner = fn[:j]
		}
		k = firstArg(k[i+1 : len(k)-1])
	}
	if strings.HasPrefix(k, "(elem ") || strings.HasPrefix(name, "S$") || strings.HasPrefix(name, "M$") {
		for _, p := range []string{"S$generic.", "S$ecs.Component", "S$reflect."} {
			if strings.HasPrefix(name, p) {
				return false
			}
		}
		if owner != "" && (nonWorldTypes[owner] || !strings.HasPrefix(owner, "ecs.")) && !strings.HasPrefix(k, "(elem ") {
			return false
		}
		return true
	}
	if owner == "" && strings.HasPrefix(name, "F$") {
		rest := name[2:]
		if j := strings.LastIndex(rest, "$"); j >= 0 {
			owner = rest[:j]
		}
	}
	if i := strings.Index(owner, "_L"); i >= 0 { // generic instance: pointers_Lecs.archetype_R
		owner = owner[:i]
	}
	if !strings.HasPrefix(owner, "ecs.") {
		return false
	}
	return !nonWorldTypes[owner]
}

// isFreshRef: the key is (a sub-object or element of) an object allocated by the function under analysis.
func (c *Ctx) isFreshRef(key string) bool {
	key = strings.TrimSpace(key)
	for {
		if c.fresh[key] {
			return true
		}
		if strings.HasPrefix(key, "(sub$") || strings.HasPrefix(key, "(elem ") {
			i := strings.Index(key, " ")
			rest := key[i+1 : len(key)-1]
			// first argument
			arg := firstArg(rest)
			key = arg
			continue
		}
		return false
	}
}

func firstArg(s string) string {
	s = strings.TrimSpace(s)
	if s == "" {
		return s
	}
	if s[0] != '(' {
		if i := strings.IndexAny(s, " )"); i >= 0 {
			return s[:i]
		}
		return s
	}
	d := 0
	for i, ch := range s {
		if ch == '(' {
			d++
		} else if ch == ')' {
			d--
			if d == 0 {
				return s[:i+1]
			}
		}
	}
	return s
}

// loadLoc reads a non-struct cell.
func (c *Ctx) loadLoc(st *State, l *Loc) Val {
	if l.obase != nil {
		base := c.loadLoc(st, l.obase)
		return c.opaqueField(base, l.ofield, l.otyp)
	}
	lv := leavesOf(l.typ)
	terms := make([]string, len(lv))
	for i, lf := range lv {
		terms[i] = c.selectCell(st, l.heap+lf.suffix, l.keys)
	}
	if l.idx != "" {
		if classOf(l.typ) == CSmallArr {
			return arrSelect(c.shape(l.typ, terms), l.idx)
		}
		return sc("(select "+terms[0]+" "+l.idx+")", l.et)
	}
	v := c.shape(l.typ, terms)
	c.assumeAllocated(st, v)
	return v
}

// shape builds a value of non-struct type t from its leaf terms.
func (c *Ctx) shape(t types.Type, terms []string) Val {
	switch classOf(t) {
	case CSlice:
		return Val{K: VSlice, Typ: t, F: []Val{sc(terms[0], nil), sc(terms[1], nil), sc(terms[2], nil)}}
	case CIface:
		return Val{K: VIface, Typ: t, F: []Val{sc(terms[0], nil), sc(terms[1], nil)}}
	case CUPtr:
		return Val{K: VUPtr, Typ: t, F: []Val{sc(terms[0], nil), sc(terms[1], nil)}}
	case CSmallArr:
		a := under(t).(*types.Array)
		v := Val{K: VArr, Typ: t}
		for i := range terms {
			v.F = append(v.F, sc(terms[i], a.Elem()))
		}
		return v
	}
	return sc(terms[0], t)
}

func (c *Ctx) storeLoc(st *State, l *Loc, v Val) {
	lv := leavesOf(l.typ)
	if l.idx != "" {
		if classOf(l.typ) == CSmallArr {
			whole := *l
			whole.idx = ""
			cur := c.loadLocQuiet(st, &whole)
			c.storeLoc(st, &whole, arrStore(cur, l.idx, v))
			return
		}
		cur := c.selectCell(st, l.heap, l.keys)
		c.storeCell(st, l.heap, l.keys, "(store "+cur+" "+l.idx+" "+v.T+")")
		return
	}
	terms := flat(v)
	if len(terms) != len(lv) {
		panic(unsupported(fmt.Sprintf("store shape mismatch for %s", l.typ)))
	}
	for i, lf := range lv {
		c.storeCell(st, l.heap+lf.suffix, l.keys, terms[i])
	}
}

// assumeAllocated: references read from memory were allocated before now (well-formed heap).
func (c *Ctx) assumeAllocated(st *State, v Val) {
	var t string
	switch v.K {
	case VScalar:
		if v.Typ == nil || classOf(v.Typ) != CRef {
			return
		}
		switch under(v.Typ).(type) {
		case *types.Pointer, *types.Map:
			t = v.T
		default:
			return
		}
	case VSlice:
		t = v.F[0].T
		c.assumeUnder(st, fmt.Sprintf("(and (bvsle #x0000000000000000 %s) (bvsle %s %s) (bvslt %s #x0000000080000000) (=> (= %s 0) (= %s #x0000000000000000)))", v.F[1].T, v.F[1].T, v.F[2].T, v.F[2].T, t, v.F[2].T))
	default:
		return
	}
	c.assumeUnder(st, fmt.Sprintf("(< (birth %s) %s)", t, st.now))
}

// loadStruct reads all fields of the struct object at ref.
func (c *Ctx) loadStruct(st *State, t types.Type, ref string) Val {
	s := under(t).(*types.Struct)
	v := Val{K: VStruct, Typ: t}
	for i := 0; i < s.NumFields(); i++ {
		f := s.Field(i)
		if classOf(f.Type()) == CStruct {
			v.F = append(v.F, c.loadStruct(st, f.Type(), c.subRef(t, f.Name(), ref)))
		} else {
			v.F = append(v.F, c.loadLoc(st, c.fieldLoc(t, f, ref)))
		}
	}
	return v
}

func (c *Ctx) storeStruct(st *State, t types.Type, ref string, v Val) {
	s := under(t).(*types.Struct)
	if v.K != VStruct || len(v.F) != s.NumFields() {
		panic(unsupported("storeStruct shape mismatch " + t.String()))
	}
	for i := 0; i < s.NumFields(); i++ {
		f := s.Field(i)
		if classOf(f.Type()) == CStruct {
			c.storeStruct(st, f.Type(), c.subRef(t, f.Name(), ref), v.F[i])
		} else {
			c.storeLoc(st, c.fieldLoc(t, f, ref), v.F[i])
		}
	}
}

// alloc returns a fresh reference.
func (c *Ctx) alloc(st *State, hint string) string {
	r := c.declare(hint, "Int")
	c.fresh[r] = true
	c.assumeUnder(st, fmt.Sprintf("(and (= (birth %s) %s) (= (kind %s) 0) (> %s 0))", r, st.now, r, r))
	st.now = c.define("now", "Int", "(+ "+st.now+" 1)")
	return r
}

// typeTag returns the integer tag of a dynamic type.
func (c *Ctx) typeTag(t types.Type) int {
	k := typeKey(t)
	if n, ok := c.tags[k]; ok {
		return n
	}
	n := len(c.tags) + 1
	c.tags[k] = n
	c.tagTyp[n] = t
	return n
}

func (c *Ctx) strID(s string) int {
	if n, ok := c.strs[s]; ok {
		return n
	}
	n := len(c.strs) + 1
	c.strs[s] = n
	return n
}

// mergeStates joins states arriving over mutually exclusive edges.
func (c *Ctx) mergeStates(ins []*State) *State {
	if len(ins) == 1 {
		return ins[0].clone()
	}
	out := &State{heap: map[string]string{}}
	for _, s := range ins {
		if s.epoch > out.epoch {
			out.epoch = s.epoch
		}
	}
	var rs []string
	for _, s := range ins {
		rs = append(rs, s.reach)
	}
	out.reach = c.define("reach", "Bool", or(rs...))
	names := map[string]bool{}
	for _, s := range ins {
		for k := range s.heap {
			names[k] = true
		}
	}
	var ns []string
	for k := range names {
		ns = append(ns, k)
	}
	sort.Strings(ns)
	for _, k := range ns {
		t := c.hget(ins[len(ins)-1], k)
		same := true
		for _, s := range ins {
			if c.hget(s, k) != t {
				same = false
			}
		}
		if !same {
			for i := len(ins) - 2; i >= 0; i-- {
				ti := c.hget(ins[i], k)
				if ti != t {
					t = "(ite " + ins[i].reach + " " + ti + " " + t + ")"
				}
			}
			t = c.define("H."+k, c.heaps[k].sort, t)
		}
		out.heap[k] = t
	}
	out.now = ins[len(ins)-1].now
	out.dirty = ins[len(ins)-1].dirty
	for i := len(ins) - 2; i >= 0; i-- {
		if ins[i].now != out.now {
			out.now = "(ite " + ins[i].reach + " " + ins[i].now + " " + out.now + ")"
		}
		if ins[i].dirty != out.dirty {
			out.dirty = "(ite " + ins[i].reach + " " + ins[i].dirty + " " + out.dirty + ")"
		}
	}
	out.now = c.define("now", "Int", out.now)
	out.dirty = c.define("dirty", "Bool", out.dirty)
	return out
}

// splitAnd splits a top-level SMT conjunction into its conjuncts.
func splitAnd(t string) []string {
	if strings.HasPrefix(t, "(=> ") {
		// (=> c (and a b)) splits into (=> c a), (=> c b)
		body := t[4 : len(t)-1]
		ant := firstArg(body)
		cons := strings.TrimSpace(body[len(ant):])
		if strings.HasPrefix(cons, "(and ") {
			parts := splitAnd(cons)
			if len(parts) > 1 && len(parts) <= 16 {
				var out []string
				for _, p := range parts {
					out = append(out, "(=> "+ant+" "+p+")")
				}
				return out
			}
		}
		return []string{t}
	}
	if !strings.HasPrefix(t, "(and ") {
		return []string{t}
	}
	body := t[5 : len(t)-1]
	var out []string
	for body != "" {
		a := firstArg(body)
		out = append(out, a)
		body = strings.TrimSpace(body[len(a):])
	}
	return out
}

// splitAndDeep splits nested conjunctions (bounded fan-out).
func splitAndDeep(t string) []string {
	parts := splitAnd(t)
	if len(parts) == 1 || len(parts) > 16 {
		return []string{t}
	}
	var out []string
	for _, p := range parts {
		out = append(out, splitAndDeep(p)...)
	}
	return out
}

// opaqueField: field of a foreign struct value, as an uninterpreted function of the value.
func (c *Ctx) opaqueField(base Val, field string, ft types.Type) Val {
	c.note("fields of foreign structs (reflect.StructField) are uninterpreted functions of the struct value")
	tmpl := c.zeroVal(ft)
	var out []string
	for i, s := range flatSorts(tmpl) {
		out = append(out, c.ufApp(fmt.Sprintf("ext$fld$%s.%d", smtName(field), i), []string{base.T}, []string{"Int"}, s))
	}
	p := 0
	return rebuild(tmpl, out, &p)
}

// elemOfPred: r is an element of backing store d, or the sub-object reached from an element through the
// embedded-struct functions fns (outermost first).
func (c *Ctx) elemOfPred(r, d string, fns []string) string {
	if !c.elemAx {
		c.elemAx = true
		c.emit("(assert (forall ((d Int) (i (_ BitVec 64))) (! (and (= (elemD (elem d i)) d) (= (elemI (elem d i)) i) (= (kind (elem d i)) 1) (= (birth (elem d i)) (birth d)) (not (= (elem d i) 0))) :pattern ((elem d i)))))")
	}
	var cs []string
	x := r
	for _, fn := range fns {
		cs = append(cs, "(= "+x+" ("+fn+" (inv."+fn+" "+x+")))")
		x = "(inv." + fn + " " + x + ")"
	}
	cs = append(cs, "(isElemOf "+x+" "+d+")")
	return and(cs...)
}
