package main

import (
	"fmt"
	"go/token"
	"go/types"
	"os"
	"sort"
	"strings"

	"golang.org/x/tools/go/packages"
	"golang.org/x/tools/go/ssa"
	"golang.org/x/tools/go/ssa/ssautil"
)

const modPath = "github.com/mlange-42/arche"

// Program is one loaded build configuration of /repo.
type Program struct {
	Tags    string
	Fset    *token.FileSet
	Pkgs    []*packages.Package
	Prog    *ssa.Program
	SPkgs   map[string]*ssa.Package // by short package name (ecs, filter, ...)
	Funcs   map[string]*ssa.Function
	AllFns  []*ssa.Function
	RepoDir string
}

var libPkgs = []string{"./ecs", "./ecs/event", "./filter", "./listener", "./generic"}

func loadProgram(repo string, tags string) (*Program, error) {
	env := append(os.Environ(), "GOFLAGS=-mod=mod", "GOWORK=off", "GOPROXY=off", "GOSUMDB=off", "GOTOOLCHAIN=local")
	cfg := &packages.Config{Mode: packages.LoadAllSyntax, Dir: repo, BuildFlags: []string{"-tags=" + tags}, Env: env}
	pkgs, err := packages.Load(cfg, libPkgs...)
	if err != nil {
		return nil, err
	}
	var errs []string
	for _, p := range pkgs {
		for _, e := range p.Errors {
			errs = append(errs, e.Error())
		}
	}
	if len(errs) > 0 {
		return nil, fmt.Errorf("package errors: %s", strings.Join(errs, "; "))
	}
	prog, spkgs := ssautil.AllPackages(pkgs, ssa.InstantiateGenerics|ssa.GlobalDebug)
	prog.Build()
	p := &Program{Tags: tags, Pkgs: pkgs, Prog: prog, SPkgs: map[string]*ssa.Package{}, Funcs: map[string]*ssa.Function{}, RepoDir: repo}
	if len(pkgs) > 0 {
		p.Fset = pkgs[0].Fset
	}
	for _, sp := range spkgs {
		if sp != nil {
			p.SPkgs[sp.Pkg.Name()] = sp
		}
	}
	all := ssautil.AllFunctions(prog)
	// methods of generic types are not in any method set: add their (type-parametric) bodies
	for _, sp := range spkgs {
		if sp == nil {
			continue
		}
		sc := sp.Pkg.Scope()
		for _, n := range sc.Names() {
			tn, ok := sc.Lookup(n).(*types.TypeName)
			if !ok {
				continue
			}
			named, ok := tn.Type().(*types.Named)
			if !ok {
				continue
			}
			for i := 0; i < named.NumMethods(); i++ {
				if f := prog.FuncValue(named.Method(i)); f != nil {
					all[f] = true
				}
			}
		}
	}
	for fn := range all {
		if fn.Pkg == nil && fn.Origin() == nil {
			continue
		}
		pk := fnPkg(fn)
		if pk == nil || !strings.HasPrefix(pk.Path(), modPath) {
			continue
		}
		if fn.Synthetic != "" && !strings.Contains(fn.Synthetic, "instance of") {
			continue // wrappers, bound methods, thunks
		}
		if fn.Blocks == nil {
			continue
		}
		name := shortName(fn)
		if old, ok := p.Funcs[name]; ok && old != fn {
			// prefer non-generic-origin duplicates deterministically
			if old.String() < fn.String() {
				continue
			}
		}
		p.Funcs[name] = fn
	}
	for _, fn := range p.Funcs {
		p.AllFns = append(p.AllFns, fn)
	}
	sort.Slice(p.AllFns, func(i, j int) bool { return shortName(p.AllFns[i]) < shortName(p.AllFns[j]) })
	return p, nil
}

func fnPkg(fn *ssa.Function) *types.Package {
	if fn.Pkg != nil {
		return fn.Pkg.Pkg
	}
	if o := fn.Origin(); o != nil && o.Pkg != nil {
		return o.Pkg.Pkg
	}
	if fn.Parent() != nil {
		return fnPkg(fn.Parent())
	}
	return nil
}

// shortName gives the contract key of a function: pkg.Recv.Name or pkg.Name;
// generic instances carry their type arguments: ecs.intPool[uint32].Get, ecs.ComponentID[T].
func shortName(fn *ssa.Function) string {
	pk := fnPkg(fn)
	pn := "?"
	if pk != nil {
		pn = pk.Name()
	}
	if fn.Parent() != nil {
		return shortName(fn.Parent()) + "$" + fn.Name()
	}
	name := fn.Name()
	if fn.Signature.Recv() != nil {
		if i := strings.Index(name, "["); i >= 0 {
			name = name[:i] // methods of generic instances: the type arguments are part of the receiver type
		}
		rt := fn.Signature.Recv().Type()
		if p, ok := rt.(*types.Pointer); ok {
			rt = p.Elem()
		}
		return pn + "." + typeShort(rt) + "." + name
	}
	if ta := fn.TypeArgs(); len(ta) > 0 {
		// name already contains [..] with full paths; rebuild
		base := name
		if i := strings.Index(base, "["); i >= 0 {
			base = base[:i]
		}
		var as []string
		for _, t := range ta {
			as = append(as, typeShort(t))
		}
		return pn + "." + base + "[" + strings.Join(as, ",") + "]"
	}
	return pn + "." + name
}

// typeShort prints a type without package paths.
func typeShort(t types.Type) string {
	return types.TypeString(t, func(p *types.Package) string { return "" })
}

// typeKey prints a type with short package names (used in heap names).
func typeKey(t types.Type) string {
	s := types.TypeString(t, func(p *types.Package) string { return p.Name() })
	r := strings.NewReplacer(" ", "", "*", "ptr_", "[", "_L", "]", "_R", ",", "_", "{", "_", "}", "_", ";", "_", "(", "_", ")", "_", "/", "_")
	return r.Replace(s)
}

func (p *Program) lookupType(pkg, name string) types.Type {
	sp := p.SPkgs[pkg]
	if sp == nil {
		return nil
	}
	o := sp.Pkg.Scope().Lookup(name)
	if o == nil {
		return nil
	}
	if _, ok := o.(*types.TypeName); !ok {
		return nil
	}
	return o.Type()
}

func (p *Program) pos(pos token.Pos) string {
	if !pos.IsValid() {
		return "-"
	}
	ps := p.Fset.Position(pos)
	f := strings.TrimPrefix(ps.Filename, p.RepoDir+"/")
	return fmt.Sprintf("%s:%d", f, ps.Line)
}
