package main

import (
	"fmt"
	"go/types"
	"sort"
	"strings"

	"golang.org/x/tools/go/ssa"
)

// originKey: contract/enumeration key of a function, generic instances mapped to their origin.
func originKey(fn *ssa.Function) string {
	if o := fn.Origin(); o != nil {
		return shortName(o)
	}
	return shortName(fn)
}

func staticCallees(fn *ssa.Function) []*ssa.Function {
	var out []*ssa.Function
	for _, b := range fn.Blocks {
		for _, ins := range b.Instrs {
			switch x := ins.(type) {
			case ssa.CallInstruction:
				if c := x.Common().StaticCallee(); c != nil {
					out = append(out, c)
				}
			case *ssa.MakeClosure:
				if f, ok := x.Fn.(*ssa.Function); ok {
					out = append(out, f)
				}
			}
		}
	}
	return out
}

// reachesSink computes, for every function of the library, whether a structural sink is reachable.
func reachesSink(p *Program, db *SpecDB) map[string]bool {
	sinks := map[string]bool{}
	for _, s := range db.Structural {
		sinks[s] = true
	}
	byKey := map[string]*ssa.Function{}
	for _, f := range p.AllFns {
		k := originKey(f)
		if old, ok := byKey[k]; !ok || (old.Origin() != nil && f.Origin() == nil) {
			byKey[k] = f
		}
	}
	memo := map[string]int{} // 1 yes, 2 no, 3 in progress
	var visit func(k string) bool
	visit = func(k string) bool {
		if sinks[k] {
			return true
		}
		switch memo[k] {
		case 1:
			return true
		case 2, 3:
			return false
		}
		memo[k] = 3
		f := byKey[k]
		res := false
		if f != nil {
			for _, c := range staticCallees(f) {
				pk := fnPkg(c)
				if pk == nil || !strings.HasPrefix(pk.Path(), modPath) {
					continue
				}
				ck := originKey(c)
				if strings.HasSuffix(ck, "$bound") {
					ck = strings.TrimSuffix(ck, "$bound")
				}
				if visit(ck) {
					res = true
					break
				}
			}
		}
		if res {
			memo[k] = 1
		} else {
			memo[k] = 2
		}
		return res
	}
	out := map[string]bool{}
	for k := range byKey {
		if visit(k) {
			out[k] = true
		}
	}
	return out
}

func exportedEntry(fn *ssa.Function) bool {
	if fn.Parent() != nil || fn.Synthetic != "" && fn.Origin() == nil {
		return false
	}
	if !types.NewFunc(0, nil, fn.Name(), nil).Exported() {
		return false
	}
	if r := fn.Signature.Recv(); r != nil {
		rt := r.Type()
		if p, ok := rt.(*types.Pointer); ok {
			rt = p.Elem()
		}
		if n, ok := types.Unalias(rt).(*types.Named); ok {
			return n.Obj().Exported()
		}
		return false
	}
	return true
}

// lockfastEntries: exported functions and methods of ecs and generic from which a structural sink is reachable.
func lockfastEntries(p *Program, db *SpecDB) (entries []*ssa.Function, reach map[string]bool) {
	reach = reachesSink(p, db)
	seen := map[string]bool{}
	for _, f := range p.AllFns {
		pk := fnPkg(f)
		if pk == nil || (pk.Name() != "ecs" && pk.Name() != "generic") {
			continue
		}
		if f.Origin() != nil {
			continue // the generic body is verified once
		}
		k := originKey(f)
		if seen[k] || !reach[k] || !exportedEntry(f) {
			continue
		}
		seen[k] = true
		entries = append(entries, f)
	}
	sort.Slice(entries, func(i, j int) bool { return originKey(entries[i]) < originKey(entries[j]) })
	return
}

func isWorldPtr(t types.Type) bool {
	p, ok := under(t).(*types.Pointer)
	if !ok {
		return false
	}
	n, ok := types.Unalias(p.Elem()).(*types.Named)
	return ok && n.Obj().Name() == "World" && n.Obj().Pkg() != nil && n.Obj().Pkg().Name() == "ecs"
}

// worldOf finds the *World an activation works on: a *World parameter, or a *World field of the receiver.
func (c *Ctx) worldOf(st *State, fn *ssa.Function, args []Val) (string, bool) {
	for i, prm := range fn.Params {
		if isWorldPtr(prm.Type()) && args[i].K == VScalar {
			return args[i].T, true
		}
	}
	if fn.Signature.Recv() != nil && len(args) > 0 {
		rt := fn.Params[0].Type()
		recv := args[0]
		var sv Val
		if pt, ok := under(rt).(*types.Pointer); ok && classOf(pt.Elem()) == CStruct && recv.K == VScalar {
			s := under(pt.Elem()).(*types.Struct)
			for i := 0; i < s.NumFields(); i++ {
				if isWorldPtr(s.Field(i).Type()) {
					v := c.loadLocQuiet(st, c.fieldLoc(pt.Elem(), s.Field(i), recv.T))
					return v.T, true
				}
			}
			return "", false
		}
		if classOf(rt) == CStruct && recv.K == VStruct {
			sv = recv
			s := under(rt).(*types.Struct)
			for i := 0; i < s.NumFields(); i++ {
				if isWorldPtr(s.Field(i).Type()) {
					return sv.F[i].T, true
				}
			}
		}
	}
	return "", false
}

func (c *Ctx) lockedTerm(st *State, w string) string {
	env := &Env{c: c, vars: map[string]Val{}, cur: st, old: st, pkg: "ecs"}
	wt := c.P.lookupType("ecs", "World")
	env.vars["$w"] = sc(w, types.NewPointer(wt))
	return env.evalB(&ECall{Fn: &EIdent{"isLocked"}, Args: []Expr{&EIdent{"$w"}}})
}

// verifyLockfast: if the world is locked at entry, nothing is written before any exit of fn.
func verifyLockfast(p *Program, db *SpecDB, fn *ssa.Function, set map[string]bool) (res *FuncResult) {
	key := originKey(fn)
	res = &FuncResult{Key: key + "#lockfast", Kind: "lockfast", Tags: p.Tags}
	loopMods := map[string]map[string]*modInfo{}
	for iter := 0; iter < 8; iter++ {
		c := newCtx(p, db, key+"#lockfast", loopMods)
		c.tolerant, c.lfMode, c.lfSet = true, true, set
		err := c.runLockfast(fn, key)
		if c.restart && err == nil {
			continue
		}
		res.Obls, res.Script = c.obls, c.script
		for n := range c.notes {
			res.Notes = append(res.Notes, n)
		}
		for n := range c.inlined {
			res.Inlined = append(res.Inlined, n)
		}
		sort.Strings(res.Inlined)
		if err != nil {
			res.Err = err.Error()
		}
		return
	}
	res.Err = "loop modification sets did not stabilise"
	return
}

func (c *Ctx) runLockfast(fn *ssa.Function, key string) (err error) {
	defer func() {
		if r := recover(); r != nil {
			switch e := r.(type) {
			case unsupportedErr:
				err = e
			case specErr:
				err = e
			default:
				panic(r)
			}
		}
	}()
	st := c.newState()
	fr := &Frame{fn: fn, key: key, vals: map[ssa.Value]Val{}, spec: c.DB.Funcs[key], top: true}
	var args []Val
	for i, prm := range fn.Params {
		v := c.freshVal(prm.Type(), prm.Name())
		fr.vals[prm] = v
		args = append(args, v)
		c.assumeParam(st, v, prm.Type())
		if i == 0 && fn.Signature.Recv() != nil {
			if _, ok := under(prm.Type()).(*types.Pointer); ok {
				c.assume("(not (= "+v.T+" 0))", "receiver is non-nil")
			}
		}
	}
	w, ok := c.worldOf(st, fn, args)
	if !ok {
		return unsupported("cannot determine the world of structural entry point " + key)
	}
	c.lfWorld = w
	c.assume("(not (= "+w+" 0))", "world is non-nil")
	c.assume(c.lockedTerm(st, w), "the world is locked at entry")
	if fr.spec != nil {
		env := c.frameEnv(fr, st)
		env.old = st
		for i, n := range fr.spec.Params {
			if i < len(args) {
				env.vars[n] = args[i]
			}
		}
		for _, cl := range fr.spec.Clauses {
			if cl.Kind == "requires" {
				c.assume(c.evalBool(env, cl.E), "requires")
				c.note("lockfast proof of " + key + " assumes its contract's precondition: " + cl.Text)
			}
		}
	}
	c.st0 = st.clone()
	c.obls = append(c.obls, &Obligation{Name: c.fn + "/cover#pre", Kind: "cover", Func: c.fn, Prefix: len(c.script), Goal: "false", Expect: "sat", Text: "a locked world exists", Pos: c.P.pos(fn.Pos())})
	c.curPos = fn.Pos()
	exit, _ := c.execBody(fr, st)
	if c.restart {
		return nil
	}
	for i, pe := range c.panics {
		o := c.obligeAt(&State{reach: pe.reach}, "lockfast", fmt.Sprintf("%s/panic#%d/clean", c.fn, i+1), not(pe.dirty), "locked at entry: nothing is written before the panic at "+pe.pos)
		o.Pos = pe.pos
	}
	if exit != nil {
		c.obligeAt(exit, "lockfast", c.fn+"/return/clean", not(exit.dirty), "locked at entry: a normal return is only possible if nothing was written")
	}
	return nil
}

// lockfastCallee: in lockfast mode a call to another structural entry point panics cleanly when its world is locked.
func (c *Ctx) lockfastCallee(fr *Frame, st *State, callee *ssa.Function, args []Val) (Val, bool) {
	if !c.lfMode {
		return Val{}, false
	}
	k := originKey(callee)
	if !c.lfSet[k] || k+"#lockfast" == c.fn {
		return Val{}, false
	}
	if _, ex := c.DB.LockExempt[k]; ex {
		return Val{}, false
	}
	w, ok := c.worldOf(st, callee, args)
	if !ok {
		return Val{}, false
	}
	cond := c.define("locked", "Bool", c.lockedTerm(st, w))
	// proved for the callee: with its world locked it writes nothing before any exit; it may panic or return.
	pan := c.declare("lf.panics", "Bool")
	c.panics = append(c.panics, &PanicExit{st: st.clone(), reach: and(st.reach, cond, pan), dirty: st.dirty, pos: c.P.pos(c.curPos), explicit: true, prefix: len(c.script), callee: k})
	st.reach = c.define("reach", "Bool", and(st.reach, not(and(cond, pan))))
	st.dirty = c.define("dirty", "Bool", or(st.dirty, not(cond))) // not locked: effects unknown here
	c.note("calls to other structural entry points use their own lockfast proof (modular)")
	return c.zeroOrFresh(callee.Signature.Results()), true
}

func (c *Ctx) zeroOrFresh(r *types.Tuple) Val {
	switch r.Len() {
	case 0:
		return Val{K: VTuple}
	case 1:
		return c.freshVal(r.At(0).Type(), "r.lf")
	}
	return c.freshVal(r, "r.lf")
}
