package main

import (
	"fmt"
	"go/types"
	"math/big"
	"strings"
)

// ---------- type classification ----------

type Class int

const (
	CBool Class = iota
	CInt
	CRef    // pointers, maps, chans, funcs, strings, opaque foreign structs, type params: SMT Int
	CStruct // struct of an analysed package (or unnamed): composite, Ref-addressed in memory
	CSlice
	CIface
	CUPtr     // unsafe.Pointer: (region, offset)
	CArray    // fixed array of scalars: SMT array value
	CSmallArr // fixed array of at most 8 scalars: one term per element (no array theory)
	CTuple
	CFloat // uninterpreted Int
)

func under(t types.Type) types.Type {
	for {
		switch x := t.(type) {
		case *types.Named:
			t = x.Underlying()
		case *types.Alias:
			t = types.Unalias(x)
		default:
			return t
		}
	}
}

func isForeignStruct(t types.Type) bool {
	t = types.Unalias(t)
	if n, ok := t.(*types.Named); ok {
		if _, ok := n.Underlying().(*types.Struct); ok {
			if n.Obj().Pkg() == nil || !strings.HasPrefix(n.Obj().Pkg().Path(), modPath) {
				return true
			}
			if strings.HasSuffix(n.Obj().Pkg().Path(), "/stats") {
				return true
			}
		}
	}
	return false
}

func classOf(t types.Type) Class {
	if isForeignStruct(t) {
		return CRef
	}
	switch u := under(t).(type) {
	case *types.Basic:
		switch {
		case u.Kind() == types.UnsafePointer:
			return CUPtr
		case u.Info()&types.IsBoolean != 0:
			return CBool
		case u.Info()&types.IsInteger != 0:
			return CInt
		case u.Info()&types.IsFloat != 0, u.Info()&types.IsComplex != 0:
			return CFloat
		case u.Kind() == types.UntypedNil:
			return CRef
		}
		return CRef // strings
	case *types.Pointer, *types.Map, *types.Chan, *types.Signature, *types.TypeParam:
		return CRef
	case *types.Struct:
		return CStruct
	case *types.Slice:
		return CSlice
	case *types.Interface:
		return CIface
	case *types.Array:
		if u.Len() <= 8 {
			switch classOf(u.Elem()) {
			case CBool, CInt, CRef, CFloat:
				return CSmallArr
			}
		}
		return CArray
	case *types.Tuple:
		return CTuple
	}
	return CRef
}

func intInfo(t types.Type) (width int, signed bool) {
	b := under(t).(*types.Basic)
	switch b.Kind() {
	case types.Int8:
		return 8, true
	case types.Uint8:
		return 8, false
	case types.Int16:
		return 16, true
	case types.Uint16:
		return 16, false
	case types.Int32:
		return 32, true
	case types.Uint32:
		return 32, false
	case types.Int64, types.Int, types.UntypedInt, types.UntypedRune:
		return 64, true
	case types.Uint64, types.Uint, types.Uintptr:
		return 64, false
	}
	return 64, true
}

func bvSort(w int) string { return fmt.Sprintf("(_ BitVec %d)", w) }

const sortIdx = "(_ BitVec 64)"

// scalarSort returns the SMT sort of a non-composite type.
func scalarSort(t types.Type) string {
	switch classOf(t) {
	case CBool:
		return "Bool"
	case CInt:
		w, _ := intInfo(t)
		return bvSort(w)
	case CRef, CFloat:
		return "Int"
	case CArray:
		a := under(t).(*types.Array)
		return "(Array " + sortIdx + " " + scalarSort(a.Elem()) + ")"
	}
	panic(unsupported("scalarSort of composite type " + t.String()))
}

type leaf struct {
	suffix string
	sort   string
}

// leavesOf describes how a memory cell of non-struct type t is spread over heap arrays.
func leavesOf(t types.Type) []leaf {
	switch classOf(t) {
	case CSlice:
		return []leaf{{".d", "Int"}, {".l", sortIdx}, {".c", sortIdx}}
	case CIface:
		return []leaf{{".t", "Int"}, {".v", "Int"}}
	case CUPtr:
		return []leaf{{".r", "Int"}, {".o", sortIdx}}
	case CStruct, CTuple:
		panic(unsupported("leavesOf struct"))
	case CSmallArr:
		a := under(t).(*types.Array)
		var out []leaf
		for i := int64(0); i < a.Len(); i++ {
			out = append(out, leaf{fmt.Sprintf(".%d", i), scalarSort(a.Elem())})
		}
		return out
	}
	return []leaf{{"", scalarSort(t)}}
}

// ---------- values ----------

type VK int

const (
	VScalar VK = iota // T holds the term (also arrays of scalars)
	VStruct           // F = fields
	VSlice            // F = data, len, cap
	VIface            // F = tag, val
	VUPtr             // F = region, offset
	VTuple            // F = elements
	VLoc              // pointer to a non-struct cell, resolved statically
	VFunc             // function value: Fn (static) or opaque
	VArr              // small fixed array: F = elements
)

type Val struct {
	K     VK
	T     string
	Typ   types.Type
	F     []Val
	L     *Loc
	Fn    string   // for VFunc: short name of a static function / bound method
	Recv  *Val     // bound receiver of a closure-made method value
	C     *big.Int // untyped integer constant (specifications only)
	Ghost bool     // ghost map value (an SMT array), as opposed to a Go map reference
}

// Loc is a statically resolved address of a non-struct memory cell.
type Loc struct {
	heap string     // base heap name (suffixes from leavesOf are appended)
	keys []string   // one key (field of object ref) or two (backing store, index)
	typ  types.Type // type of the cell
	idx  string     // if non-empty: index into the array-valued cell
	et   types.Type // element type when idx is set
	// field of an opaque (foreign) struct stored in the cell obase: read as an uninterpreted function
	obase  *Loc
	ofield string
	otyp   types.Type
}

type unsupportedErr struct{ msg string }

func (u unsupportedErr) Error() string { return "unsupported: " + u.msg }
func unsupported(msg string) error     { return unsupportedErr{msg} }

func sc(term string, t types.Type) Val { return Val{K: VScalar, T: term, Typ: t} }

func bvLit(w int, v *big.Int) string {
	m := new(big.Int).Lsh(big.NewInt(1), uint(w))
	x := new(big.Int).Mod(v, m)
	if w%4 == 0 {
		return fmt.Sprintf("#x%0*s", w/4, x.Text(16))
	}
	return fmt.Sprintf("#b%0*s", w, x.Text(2))
}

func bvInt(w int, v int64) string { return bvLit(w, big.NewInt(v)) }

func intLit(v int64) string {
	if v < 0 {
		return fmt.Sprintf("(- %d)", -v)
	}
	return fmt.Sprintf("%d", v)
}

// zeroVal builds the zero value of a type.
func (c *Ctx) zeroVal(t types.Type) Val {
	switch classOf(t) {
	case CBool:
		return sc("false", t)
	case CInt:
		w, _ := intInfo(t)
		return sc(bvInt(w, 0), t)
	case CRef, CFloat:
		return sc("0", t)
	case CStruct:
		st := under(t).(*types.Struct)
		v := Val{K: VStruct, Typ: t}
		for i := 0; i < st.NumFields(); i++ {
			v.F = append(v.F, c.zeroVal(st.Field(i).Type()))
		}
		return v
	case CSlice:
		return Val{K: VSlice, Typ: t, F: []Val{sc("0", nil), sc(bvInt(64, 0), nil), sc(bvInt(64, 0), nil)}}
	case CIface:
		return Val{K: VIface, Typ: t, F: []Val{sc("0", nil), sc("0", nil)}}
	case CUPtr:
		return Val{K: VUPtr, Typ: t, F: []Val{sc("0", nil), sc(bvInt(64, 0), nil)}}
	case CSmallArr:
		a := under(t).(*types.Array)
		v := Val{K: VArr, Typ: t}
		for i := int64(0); i < a.Len(); i++ {
			v.F = append(v.F, c.zeroVal(a.Elem()))
		}
		return v
	case CArray:
		a := under(t).(*types.Array)
		z := c.zeroVal(a.Elem())
		return sc("((as const "+scalarSort(t)+") "+z.T+")", t)
	case CTuple:
		tp := t.(*types.Tuple)
		v := Val{K: VTuple, Typ: t}
		for i := 0; i < tp.Len(); i++ {
			v.F = append(v.F, c.zeroVal(tp.At(i).Type()))
		}
		return v
	}
	panic(unsupported("zeroVal " + t.String()))
}

// freshVal declares unconstrained constants for a value of type t.
func (c *Ctx) freshVal(t types.Type, hint string) Val {
	switch classOf(t) {
	case CBool, CInt, CRef, CFloat, CArray:
		return sc(c.declare(hint, scalarSort(t)), t)
	case CSmallArr:
		a := under(t).(*types.Array)
		v := Val{K: VArr, Typ: t}
		for i := int64(0); i < a.Len(); i++ {
			v.F = append(v.F, c.freshVal(a.Elem(), fmt.Sprintf("%s.%d", hint, i)))
		}
		return v
	case CStruct:
		st := under(t).(*types.Struct)
		v := Val{K: VStruct, Typ: t}
		for i := 0; i < st.NumFields(); i++ {
			v.F = append(v.F, c.freshVal(st.Field(i).Type(), hint+"."+st.Field(i).Name()))
		}
		return v
	case CSlice:
		d, l, cp := c.declare(hint+".d", "Int"), c.declare(hint+".l", sortIdx), c.declare(hint+".c", sortIdx)
		c.assume(fmt.Sprintf("(and (bvsle #x0000000000000000 %s) (bvsle %s %s) (bvslt %s #x0000000080000000))", l, l, cp, cp), "slice header well-formed (A1)")
		c.assume(fmt.Sprintf("(=> (= %s 0) (= %s #x0000000000000000))", d, cp), "nil slice has cap 0")
		return Val{K: VSlice, Typ: t, F: []Val{sc(d, nil), sc(l, nil), sc(cp, nil)}}
	case CIface:
		return Val{K: VIface, Typ: t, F: []Val{sc(c.declare(hint+".t", "Int"), nil), sc(c.declare(hint+".v", "Int"), nil)}}
	case CUPtr:
		return Val{K: VUPtr, Typ: t, F: []Val{sc(c.declare(hint+".r", "Int"), nil), sc(c.declare(hint+".o", sortIdx), nil)}}
	case CTuple:
		tp := t.(*types.Tuple)
		v := Val{K: VTuple, Typ: t}
		for i := 0; i < tp.Len(); i++ {
			v.F = append(v.F, c.freshVal(tp.At(i).Type(), fmt.Sprintf("%s.%d", hint, i)))
		}
		return v
	}
	panic(unsupported("freshVal " + t.String()))
}

// flat lists the scalar terms of a value in a canonical order.
func flat(v Val) []string {
	switch v.K {
	case VScalar:
		return []string{v.T}
	case VLoc, VFunc:
		panic(unsupported("pointer to non-struct cell or func value used as a first-class value"))
	}
	var out []string
	for _, f := range v.F {
		out = append(out, flat(f)...)
	}
	return out
}

// rebuild makes a value of the same shape as tmpl from a list of terms.
func rebuild(tmpl Val, terms []string, pos *int) Val {
	switch tmpl.K {
	case VScalar:
		v := tmpl
		v.T = terms[*pos]
		*pos++
		return v
	case VLoc, VFunc:
		panic(unsupported("rebuild of static pointer"))
	}
	v := tmpl
	v.F = make([]Val, len(tmpl.F))
	for i := range tmpl.F {
		v.F[i] = rebuild(tmpl.F[i], terms, pos)
	}
	return v
}

func iteVal(cond string, a, b Val) Val {
	if a.K == VLoc || b.K == VLoc || a.K == VFunc || b.K == VFunc {
		if a.K == b.K && a.K == VFunc && a.Fn == b.Fn {
			return a
		}
		if a.K == VLoc && b.K == VLoc && locSame(a.L, b.L) {
			return a
		}
		panic(unsupported("merge of static pointers"))
	}
	fa, fb := flat(a), flat(b)
	if len(fa) != len(fb) {
		panic(unsupported("ite of differently shaped values"))
	}
	out := make([]string, len(fa))
	for i := range fa {
		if fa[i] == fb[i] {
			out[i] = fa[i]
		} else {
			out[i] = "(ite " + cond + " " + fa[i] + " " + fb[i] + ")"
		}
	}
	p := 0
	return rebuild(a, out, &p)
}

func locSame(a, b *Loc) bool {
	if a.heap != b.heap || a.idx != b.idx || len(a.keys) != len(b.keys) {
		return false
	}
	for i := range a.keys {
		if a.keys[i] != b.keys[i] {
			return false
		}
	}
	return true
}

// eqVal gives the SMT term for Go equality of two values of one type.
func (c *Ctx) eqVal(a, b Val) string {
	if a.K == VScalar && a.Typ != nil && classOf(a.Typ) == CArray {
		arr := under(a.Typ).(*types.Array)
		if arr.Len() <= 8 {
			var cs []string
			for i := int64(0); i < arr.Len(); i++ {
				ix := bvInt(64, i)
				cs = append(cs, fmt.Sprintf("(= (select %s %s) (select %s %s))", a.T, ix, b.T, ix))
			}
			return and(cs...)
		}
		// compare in range only
		return fmt.Sprintf("(forall ((q.i %s)) (=> (bvult q.i %s) (= (select %s q.i) (select %s q.i))))", sortIdx, bvInt(64, arr.Len()), a.T, b.T)
	}
	if a.K == VStruct {
		var cs []string
		for i := range a.F {
			cs = append(cs, c.eqVal(a.F[i], b.F[i]))
		}
		return and(cs...)
	}
	fa, fb := flat(a), flat(b)
	if a.K == VSlice { // only comparison with nil is legal in Go
		return "(= " + fa[0] + " " + fb[0] + ")"
	}
	var cs []string
	for i := range fa {
		cs = append(cs, "(= "+fa[i]+" "+fb[i]+")")
	}
	return and(cs...)
}

func and(cs ...string) string {
	var out []string
	for _, c := range cs {
		if c == "true" {
			continue
		}
		if c == "false" {
			return "false"
		}
		out = append(out, c)
	}
	switch len(out) {
	case 0:
		return "true"
	case 1:
		return out[0]
	}
	return "(and " + strings.Join(out, " ") + ")"
}

func or(cs ...string) string {
	var out []string
	for _, c := range cs {
		if c == "false" {
			continue
		}
		if c == "true" {
			return "true"
		}
		out = append(out, c)
	}
	switch len(out) {
	case 0:
		return "false"
	case 1:
		return out[0]
	}
	return "(or " + strings.Join(out, " ") + ")"
}

func not(c string) string {
	switch c {
	case "true":
		return "false"
	case "false":
		return "true"
	}
	if strings.HasPrefix(c, "(not ") && balanced(c[5:len(c)-1]) {
		return c[5 : len(c)-1]
	}
	return "(not " + c + ")"
}

func balanced(s string) bool {
	d := 0
	for _, ch := range s {
		if ch == '(' {
			d++
		} else if ch == ')' {
			d--
			if d < 0 {
				return false
			}
		}
	}
	return d == 0
}

func implies(a, b string) string {
	if a == "true" {
		return b
	}
	if b == "true" || a == "false" {
		return "true"
	}
	return "(=> " + a + " " + b + ")"
}

// convInt converts an integer term between Go integer types (truncate / extend).
func convInt(term string, from, to types.Type) string {
	fw, fs := intInfo(from)
	tw, _ := intInfo(to)
	switch {
	case fw == tw:
		return term
	case fw > tw:
		return fmt.Sprintf("((_ extract %d 0) %s)", tw-1, term)
	case fs:
		return fmt.Sprintf("((_ sign_extend %d) %s)", tw-fw, term)
	}
	return fmt.Sprintf("((_ zero_extend %d) %s)", tw-fw, term)
}

// litIndex parses a 64-bit literal index.
func litIndex(t string) (int64, bool) {
	if strings.HasPrefix(t, "#x") && len(t) == 18 {
		v, ok := new(big.Int).SetString(t[2:], 16)
		if ok && v.IsInt64() {
			return v.Int64(), true
		}
	}
	return 0, false
}

// arrSelect reads element idx of a small array value.
func arrSelect(a Val, idx string) Val {
	if k, ok := litIndex(idx); ok && k >= 0 && int(k) < len(a.F) {
		return a.F[k]
	}
	r := a.F[len(a.F)-1]
	for k := len(a.F) - 2; k >= 0; k-- {
		r = sc("(ite (= "+idx+" "+bvInt(64, int64(k))+") "+a.F[k].T+" "+r.T+")", a.F[k].Typ)
	}
	return r
}

// arrStore returns the small array with element idx replaced.
func arrStore(a Val, idx string, v Val) Val {
	out := a
	out.F = make([]Val, len(a.F))
	k0, lit := litIndex(idx)
	for k := range a.F {
		switch {
		case lit && int64(k) == k0:
			out.F[k] = sc(v.T, a.F[k].Typ)
		case lit:
			out.F[k] = a.F[k]
		default:
			out.F[k] = sc("(ite (= "+idx+" "+bvInt(64, int64(k))+") "+v.T+" "+a.F[k].T+")", a.F[k].Typ)
		}
	}
	return out
}
