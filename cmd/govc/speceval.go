package main

import (
	"fmt"
	"go/ast"
	"go/constant"
	"go/token"
	"go/types"
	"math/big"
	"strings"

	"golang.org/x/tools/go/ssa"
)

// Env is the evaluation environment of a specification expression.
type Env struct {
	c      *Ctx
	vars   map[string]Val
	cur    *State
	old    *State
	loopIn *State
	fr     *Frame
	header *ssa.BasicBlock
	pkg    string
	depth  int
	bound  map[string]bool // quantifier-bound names
	inOld  bool            // evaluating inside old(...)
	tsubst map[string]types.Type // type parameters of the callee bound to the type arguments of a call (contracts of generic functions)
}

func (e *Env) with(st *State) *Env {
	n := *e
	n.cur = st
	return &n
}

func (e *Env) bind(name string, v Val) *Env {
	n := *e
	n.bound = map[string]bool{name: true}
	for k := range e.bound {
		n.bound[k] = true
	}
	n.vars = make(map[string]Val, len(e.vars)+1)
	for k, x := range e.vars {
		n.vars[k] = x
	}
	n.vars[name] = v
	return &n
}

// refType is the specification-level type of opaque references (interface payloads, backing stores).
var refType = types.NewNamed(types.NewTypeName(0, nil, "ref", nil), types.NewPointer(types.Typ[types.Int]), nil)

type specErr struct{ msg string }

func (s specErr) Error() string { return "contract binding error: " + s.msg }

func sfail(format string, a ...interface{}) { panic(specErr{fmt.Sprintf(format, a...)}) }

// place: a struct object in memory
type place struct {
	ref string
	typ types.Type
}

func (c *Ctx) frameEnv(fr *Frame, st *State) *Env {
	env := &Env{c: c, vars: map[string]Val{}, cur: st, old: fr.entry, fr: fr, pkg: pkgNameOf(fr.fn)}
	for _, p := range fr.fn.Params {
		if v, ok := fr.vals[p]; ok {
			env.vars[p.Name()] = v
		}
	}
	if fr.spec != nil {
		for i, n := range fr.spec.Params {
			if i < len(fr.fn.Params) {
				if v, ok := fr.vals[fr.fn.Params[i]]; ok {
					env.vars[n] = v
				}
			}
		}
	}
	return env
}

func pkgNameOf(fn *ssa.Function) string {
	if p := fnPkg(fn); p != nil {
		return p.Name()
	}
	return "ecs"
}

func (c *Ctx) evalBool(env *Env, e Expr) string {
	v := env.eval(e)
	if v.K != VScalar {
		sfail("boolean expected: %s", exprString(e))
	}
	return v.T
}

// ---------- type resolution ----------

func (env *Env) resolveType(t TypeExpr) types.Type {
	switch t.Kind {
	case "ptr":
		return types.NewPointer(env.resolveType(*t.Elem))
	case "slice":
		return types.NewSlice(env.resolveType(*t.Elem))
	case "array":
		return types.NewArray(env.resolveType(*t.Elem), t.N)
	case "map":
		return types.NewMap(env.resolveType(*t.Key), env.resolveType(*t.Elem))
	}
	name := t.Name
	targs := ""
	if i := strings.Index(name, "["); i >= 0 {
		targs = name[i+1 : len(name)-1]
		name = name[:i]
	}
	var base types.Type
	if t.Pkg == "" && targs == "" {
		if ty, ok := env.tsubst[name]; ok {
			return ty
		}
	}
	if t.Pkg == "" && env.fr != nil && env.fr.fn != nil {
		// type parameters of the function under analysis (or of its receiver type)
		fn := env.fr.fn
		if fn.Origin() != nil {
			fn = fn.Origin()
		}
		if tps := fn.TypeParams(); tps != nil {
			for i := 0; i < tps.Len(); i++ {
				if tps.At(i).Obj().Name() == name {
					return tps.At(i)
				}
			}
		}
		if r := fn.Signature.Recv(); r != nil {
			rt := r.Type()
			if p, ok := rt.(*types.Pointer); ok {
				rt = p.Elem()
			}
			if n, ok := types.Unalias(rt).(*types.Named); ok {
				if tas := n.TypeArgs(); tas != nil {
					for i := 0; i < tas.Len(); i++ {
						if tp, ok := tas.At(i).(*types.TypeParam); ok && tp.Obj().Name() == name {
							return tp
						}
					}
				}
			}
		}
	}
	if t.Pkg == "" {
		if o := types.Universe.Lookup(name); o != nil {
			if tn, ok := o.(*types.TypeName); ok {
				return tn.Type()
			}
		}
		if name == "ref" {
			return refType
		}
		for _, pn := range []string{env.pkg, "ecs", "event", "filter", "listener", "generic"} {
			if ty := env.c.P.lookupType(pn, name); ty != nil {
				base = ty
				break
			}
		}
	} else {
		base = env.c.P.lookupType(t.Pkg, name)
		if base == nil && t.Pkg == "unsafe" && name == "Pointer" {
			return types.Typ[types.UnsafePointer]
		}
		if base == nil && t.Pkg == "reflect" {
			for _, p := range env.c.P.Pkgs {
				if ip, ok := p.Imports["reflect"]; ok {
					if o := ip.Types.Scope().Lookup(name); o != nil {
						base = o.Type()
					}
				}
			}
		}
	}
	if base == nil {
		sfail("unknown type %s", t.String())
	}
	if targs != "" {
		var as []types.Type
		for _, a := range splitTop(targs, ',') {
			toks, err := lex(a)
			if err != nil {
				sfail("%v", err)
			}
			p := &parser{toks: toks, src: a}
			as = append(as, env.resolveType(p.typeExpr()))
		}
		inst, err := types.Instantiate(nil, base, as, false)
		if err != nil {
			sfail("cannot instantiate %s: %v", t.String(), err)
		}
		// find the canonical instance used by the program (identical type)
		return inst
	}
	return base
}

func (env *Env) isTypeName(name string) (types.Type, bool) {
	if o := types.Universe.Lookup(name); o != nil {
		if tn, ok := o.(*types.TypeName); ok {
			return tn.Type(), true
		}
		return nil, false
	}
	if _, ok := env.vars[name]; ok {
		return nil, false
	}
	for _, pn := range []string{env.pkg, "ecs"} {
		if ty := env.c.P.lookupType(pn, name); ty != nil {
			return ty, true
		}
	}
	return nil, false
}

// ---------- evaluation ----------

func constVal(b *big.Int) Val { return Val{K: VScalar, C: b} }

func (env *Env) typed(v Val, t types.Type) Val {
	if v.C == nil {
		return v
	}
	if t == nil {
		return v
	}
	switch classOf(t) {
	case CInt:
		w, _ := intInfo(t)
		return sc(bvLit(w, v.C), t)
	case CRef, CFloat:
		return sc(intLit(v.C.Int64()), t)
	}
	sfail("constant used as %s", t)
	return v
}

func (env *Env) eval(e Expr) Val {
	switch x := e.(type) {
	case *ENum:
		b, ok := new(big.Int).SetString(x.Text, 0)
		if !ok {
			sfail("bad number %s", x.Text)
		}
		return constVal(b)
	case *EIdent:
		return env.ident(x.Name)
	case *EBin:
		return env.binary(x)
	case *EUn:
		return env.unary(x)
	case *ESel:
		return env.selector(x)
	case *EIndex:
		return env.index(x)
	case *ECall:
		return env.callExpr(x)
	case *EQuant:
		return env.quant(x)
	}
	sfail("cannot evaluate %s", exprString(e))
	return Val{}
}

func (env *Env) ident(name string) Val {
	switch name {
	case "true":
		return sc("true", types.Typ[types.Bool])
	case "false":
		return sc("false", types.Typ[types.Bool])
	case "nil":
		return Val{K: VScalar, T: "0", Typ: types.Typ[types.UntypedNil]}
	}
	if env.fr != nil && env.header != nil {
		// in a loop invariant a loop-carried variable shadows the parameter of the same source name
		for _, ins := range env.header.Instrs {
			phi, ok := ins.(*ssa.Phi)
			if !ok {
				break
			}
			if phi.Comment == name {
				if _, bound := env.bound[name]; !bound {
					return env.fr.vals[phi]
				}
			}
		}
	}
	if env.fr != nil && env.header != nil && !env.inOld {
		// an address-taken copy of a by-value parameter: the invariant speaks about its current content
		if _, isParam := env.vars[name]; isParam {
			if _, bound := env.bound[name]; !bound {
				if p, ok := env.frameAddr(name); ok {
					return env.c.loadStruct(env.cur, p.typ, p.ref)
				}
			}
		}
	}
	if v, ok := env.vars[name]; ok {
		return v
	}
	if env.fr != nil {
		if v, ok := env.frameVar(name); ok {
			return v
		}
	}
	if v, ok := env.pkgConst(env.pkg, name); ok {
		return v
	}
	if v, ok := env.pkgConst("ecs", name); ok {
		return v
	}
	if g := env.c.DB.Globals[name]; g != nil {
		hn, t := env.globalHeap(g)
		v := sc(env.c.hget(env.cur, hn), t)
		v.Ghost = true
		return v
	}
	sfail("unknown identifier %s", name)
	return Val{}
}

func (env *Env) pkgConst(pkg, name string) (Val, bool) {
	sp := env.c.P.SPkgs[pkg]
	if sp == nil {
		return Val{}, false
	}
	o := sp.Pkg.Scope().Lookup(name)
	k, ok := o.(*types.Const)
	if !ok {
		return Val{}, false
	}
	switch k.Val().Kind() {
	case constant.Int:
		b, _ := new(big.Int).SetString(k.Val().ExactString(), 10)
		if bt, ok := k.Type().(*types.Basic); ok && bt.Info()&types.IsUntyped != 0 {
			return constVal(b), true
		}
		w, _ := intInfo(k.Type())
		return sc(bvLit(w, b), k.Type()), true
	case constant.Bool:
		if constant.BoolVal(k.Val()) {
			return sc("true", k.Type()), true
		}
		return sc("false", k.Type()), true
	}
	return Val{}, false
}

// frameAddr: address of an address-taken struct local.
func (env *Env) frameAddr(name string) (place, bool) {
	fr := env.fr
	for _, b := range fr.fn.Blocks {
		for _, ins := range b.Instrs {
			d, ok := ins.(*ssa.DebugRef)
			if !ok || !d.IsAddr {
				continue
			}
			id, ok := d.Expr.(*ast.Ident)
			if !ok || id.Name != name {
				continue
			}
			v, def := fr.vals[d.X]
			if !def || v.K != VScalar {
				continue
			}
			if pt, ok := under(d.X.Type()).(*types.Pointer); ok && classOf(pt.Elem()) == CStruct {
				return place{v.T, pt.Elem()}, true
			}
		}
	}
	return place{}, false
}

// frameVar resolves a source-level local name at a loop head.
func (env *Env) frameVar(name string) (Val, bool) {
	fr := env.fr
	if env.header != nil {
		for _, ins := range env.header.Instrs {
			phi, ok := ins.(*ssa.Phi)
			if !ok {
				break
			}
			if name == "$i" && phi.Comment == "rangeindex" {
				v := fr.vals[phi]
				return sc("(bvadd "+v.T+" "+bvInt(64, 1)+")", types.Typ[types.Int]), true
			}
			if phi.Comment == name {
				return fr.vals[phi], true
			}
		}
	}
	// a local that lives in memory (address taken): the name denotes its current content
	for _, b := range fr.fn.Blocks {
		for _, ins := range b.Instrs {
			a, ok := ins.(*ssa.Alloc)
			if !ok || a.Comment != name {
				continue
			}
			if _, def := fr.vals[a]; !def {
				continue
			}
			if env.header != nil && !b.Dominates(env.header) {
				continue
			}
			return env.c.deref(nil, env.cur, env.c.val(fr, a), a.Type()), true
		}
	}
	// DebugRef lookup: latest defined value carrying this source name
	var best ssa.Value
	var bestAddr bool
	for _, b := range fr.fn.Blocks {
		for _, ins := range b.Instrs {
			d, ok := ins.(*ssa.DebugRef)
			if !ok {
				continue
			}
			id, ok := d.Expr.(*ast.Ident)
			if !ok || id.Name != name {
				continue
			}
			if _, def := fr.vals[d.X]; !def {
				if _, isC := d.X.(*ssa.Const); !isC {
					continue
				}
			}
			if env.header != nil && !b.Dominates(env.header) {
				continue
			}
			if bestAddr && !d.IsAddr {
				continue // the variable lives in memory: its current content is what the name denotes
			}
			best, bestAddr = d.X, d.IsAddr
		}
	}
	if best == nil {
		return Val{}, false
	}
	v := env.c.val(fr, best)
	if bestAddr {
		return env.c.deref(nil, env.cur, v, best.Type()), true
	}
	return v, true
}

func (env *Env) unary(x *EUn) Val {
	switch x.Op {
	case "!":
		v := env.eval(x.X)
		return sc(not(v.T), types.Typ[types.Bool])
	case "-":
		v := env.eval(x.X)
		if v.C != nil {
			return constVal(new(big.Int).Neg(v.C))
		}
		return sc("(bvneg "+v.T+")", v.Typ)
	case "^":
		v := env.eval(x.X)
		if v.C != nil {
			return constVal(new(big.Int).Not(v.C))
		}
		return sc("(bvnot "+v.T+")", v.Typ)
	case "*":
		v := env.eval(x.X)
		if v.K == VLoc {
			return env.c.loadLoc(env.cur, v.L)
		}
		pt, ok := under(v.Typ).(*types.Pointer)
		if !ok {
			sfail("deref of non-pointer %s", exprString(x.X))
		}
		if classOf(pt.Elem()) == CStruct {
			return env.c.loadStruct(env.cur, pt.Elem(), v.T)
		}
		sfail("deref of pointer to %s", pt.Elem())
	case "&":
		if p, ok := env.placeOf(x.X); ok {
			return sc(p.ref, types.NewPointer(p.typ))
		}
		sfail("cannot take address of %s", exprString(x.X))
	}
	sfail("unary %s", x.Op)
	return Val{}
}

// placeOf: if e denotes a struct object in memory, return its reference.
func (env *Env) placeOf(e Expr) (place, bool) {
	switch x := e.(type) {
	case *EIdent:
		if _, ok := env.vars[x.Name]; !ok && env.fr != nil {
			if p, ok := env.frameAddr(x.Name); ok {
				return p, true
			}
		}
	case *EUn:
		if x.Op == "*" {
			v := env.eval(x.X)
			if v.K == VScalar {
				if pt, ok := under(v.Typ).(*types.Pointer); ok && classOf(pt.Elem()) == CStruct {
					return place{v.T, pt.Elem()}, true
				}
			}
		}
	case *ESel:
		base, ok := env.structBase(x.X)
		if !ok {
			return place{}, false
		}
		s := under(base.typ).(*types.Struct)
		for i := 0; i < s.NumFields(); i++ {
			f := s.Field(i)
			if f.Name() == x.Name && classOf(f.Type()) == CStruct {
				return place{env.c.subRef(base.typ, f.Name(), base.ref), f.Type()}, true
			}
		}
	case *EIndex:
		v := env.eval(x.X)
		if v.K == VSlice {
			if st, ok := under(v.Typ).(*types.Slice); ok && classOf(st.Elem()) == CStruct {
				i := env.idx(env.eval(x.I))
				return place{env.c.elemRef(v.F[0].T, i), st.Elem()}, true
			}
		}
	}
	return place{}, false
}

// structBase: e is a struct object in memory, either directly or through a pointer (auto-deref).
func (env *Env) structBase(e Expr) (place, bool) {
	if p, ok := env.placeOf(e); ok {
		return p, true
	}
	if !env.mayBeValue(e) {
		return place{}, false
	}
	v := env.eval(e)
	if v.K == VScalar && v.Typ != nil {
		if pt, ok := under(v.Typ).(*types.Pointer); ok && classOf(pt.Elem()) == CStruct {
			return place{v.T, pt.Elem()}, true
		}
	}
	return place{}, false
}

func (env *Env) mayBeValue(e Expr) bool { return true }

func (env *Env) idx(v Val) string {
	if v.C != nil {
		return bvLit(64, v.C)
	}
	if v.Typ == nil {
		return v.T
	}
	if classOf(v.Typ) != CInt {
		sfail("index must be an integer")
	}
	return convInt(v.T, v.Typ, types.Typ[types.Int])
}

func (env *Env) selector(x *ESel) Val {
	// package-qualified constant
	if id, ok := x.X.(*EIdent); ok {
		if _, isVar := env.vars[id.Name]; !isVar {
			if _, isPkg := env.c.P.SPkgs[id.Name]; isPkg {
				if v, ok := env.pkgConst(id.Name, x.Name); ok {
					return v
				}
				sfail("unknown constant %s.%s", id.Name, x.Name)
			}
		}
	}
	if base, ok := env.structBase(x.X); ok {
		return env.fieldOf(base, x.Name)
	}
	v := env.eval(x.X)
	switch v.K {
	case VStruct:
		s := under(v.Typ).(*types.Struct)
		for i := 0; i < s.NumFields(); i++ {
			if s.Field(i).Name() == x.Name {
				return v.F[i]
			}
		}
		// promoted through embedded struct values
		for i := 0; i < s.NumFields(); i++ {
			if s.Field(i).Embedded() && v.F[i].K == VStruct {
				es := under(v.F[i].Typ).(*types.Struct)
				for j := 0; j < es.NumFields(); j++ {
					if es.Field(j).Name() == x.Name {
						return v.F[i].F[j]
					}
				}
			}
		}
	case VIface:
		switch x.Name {
		case "tag":
			return sc(v.F[0].T, refType)
		case "val":
			return sc(v.F[1].T, refType)
		}
	case VSlice:
		if x.Name == "data" {
			return sc(v.F[0].T, refType)
		}
	case VUPtr:
		switch x.Name {
		case "reg":
			return sc(v.F[0].T, refType)
		case "off":
			return sc(v.F[1].T, types.Typ[types.Int])
		}
	}
	sfail("no field %s in %s", x.Name, exprString(x.X))
	return Val{}
}

// refVal wraps an Int-sorted term as an opaque reference value.
func refVal(t string) Val { return sc(t, refType) }

func (env *Env) fieldOf(base place, name string) Val {
	c := env.c
	s := under(base.typ).(*types.Struct)
	for i := 0; i < s.NumFields(); i++ {
		f := s.Field(i)
		if f.Name() != name {
			continue
		}
		if classOf(f.Type()) == CStruct {
			return c.loadStruct(env.cur, f.Type(), c.subRef(base.typ, f.Name(), base.ref))
		}
		return c.loadLocQuiet(env.cur, c.fieldLoc(base.typ, f, base.ref))
	}
	// promoted fields through embedded pointer or struct
	for i := 0; i < s.NumFields(); i++ {
		f := s.Field(i)
		if !f.Embedded() {
			continue
		}
		if classOf(f.Type()) == CStruct {
			sub := place{c.subRef(base.typ, f.Name(), base.ref), f.Type()}
			if hasField(f.Type(), name) || env.ghostOf(f.Type(), name) != nil {
				return env.fieldOf(sub, name)
			}
		} else if pt, ok := under(f.Type()).(*types.Pointer); ok && classOf(pt.Elem()) == CStruct {
			if hasField(pt.Elem(), name) || env.ghostOf(pt.Elem(), name) != nil {
				pv := c.loadLocQuiet(env.cur, c.fieldLoc(base.typ, f, base.ref))
				return env.fieldOf(place{pv.T, pt.Elem()}, name)
			}
		}
	}
	if g := env.ghostOf(base.typ, name); g != nil {
		return env.ghostLoad(g, base)
	}
	sfail("type %s has no field or ghost field %s", typeShort(base.typ), name)
	return Val{}
}

func hasField(t types.Type, name string) bool {
	s, ok := under(t).(*types.Struct)
	if !ok {
		return false
	}
	for i := 0; i < s.NumFields(); i++ {
		if s.Field(i).Name() == name {
			return true
		}
	}
	return false
}

func structName(t types.Type) string {
	s := typeShort(t)
	if i := strings.Index(s, "["); i >= 0 {
		s = s[:i]
	}
	return s
}

func (env *Env) ghostOf(t types.Type, name string) *GhostField {
	for _, pn := range []string{pkgOfType(t), env.pkg, "ecs"} {
		if g := env.c.DB.Ghosts[pn+"."+structName(t)+"."+name]; g != nil {
			return g
		}
	}
	return nil
}

// globalHeap: a ghost global map[ref]V is one heap variable keyed by reference.
func (env *Env) globalHeap(g *GhostField) (string, types.Type) {
	sub := &Env{c: env.c, pkg: g.Pkg, vars: map[string]Val{}}
	t := sub.resolveType(g.T)
	mt, ok := t.(*types.Map)
	if !ok || keySort(mt.Key()) != "Int" {
		sfail("ghostglobal %s must be map[ref]V", g.Name)
	}
	name := "GG$" + g.Name
	env.c.heapDecl(name, scalarSort(mt.Elem()), 1, true)
	return name, t
}

// ghost field storage: heap G$Struct$name keyed by object reference; value sort from the ghost type.
func (env *Env) ghostHeap(g *GhostField) (string, string, types.Type) {
	t := env.resolveType(g.T)
	name := "G$" + g.Struct + "$" + g.Name
	var vs string
	if mt, ok := t.(*types.Map); ok {
		vs = "(Array " + keySort(mt.Key()) + " " + scalarSort(mt.Elem()) + ")"
	} else {
		vs = scalarSort(t)
	}
	env.c.heapDecl(name, vs, 1, true)
	return name, vs, t
}

func (env *Env) ghostLoad(g *GhostField, base place) Val {
	name, _, t := env.ghostHeap(g)
	term := "(select " + env.c.hget(env.cur, name) + " " + base.ref + ")"
	v := sc(term, t)
	if _, ok := t.(*types.Map); ok {
		v.Ghost = true
	}
	return v
}

// loadLocQuiet reads memory without emitting allocation assumptions (used inside specifications).
func (c *Ctx) loadLocQuiet(st *State, l *Loc) Val {
	lv := leavesOf(l.typ)
	terms := make([]string, len(lv))
	for i, lf := range lv {
		terms[i] = c.selectCell(st, l.heap+lf.suffix, l.keys)
	}
	return c.shape(l.typ, terms)
}

func (env *Env) index(x *EIndex) Val {
	c := env.c
	if p, ok := env.placeOf(x); ok {
		return c.loadStruct(env.cur, p.typ, p.ref)
	}
	v := env.eval(x.X)
	switch {
	case v.K == VSlice:
		st := under(v.Typ).(*types.Slice)
		i := env.idx(env.eval(x.I))
		return c.loadLocQuiet(env.cur, c.elemLoc(st.Elem(), v.F[0].T, i))
	case v.K == VScalar && v.Ghost:
		mt := v.Typ.(*types.Map)
		kv := env.eval(x.I)
		if keySort(mt.Key()) == "Int" {
			return sc("(select "+v.T+" "+refTerm(kv)+")", mt.Elem())
		}
		k := env.typed(kv, mt.Key())
		return sc("(select "+v.T+" "+c.mapKey(k)+")", mt.Elem())
	case v.K == VArr:
		return arrSelect(v, env.idx(env.eval(x.I)))
	case v.K == VScalar && v.Typ != nil && classOf(v.Typ) == CArray:
		i := env.idx(env.eval(x.I))
		return sc("(select "+v.T+" "+i+")", under(v.Typ).(*types.Array).Elem())
	case v.K == VScalar && v.Typ != nil:
		if mt, ok := under(v.Typ).(*types.Map); ok {
			k := env.typed(env.eval(x.I), mt.Key())
			_, val := c.mapGet(env.cur, v.Typ, v.T, c.mapKey(k))
			return val
		}
	}
	sfail("cannot index %s", exprString(x.X))
	return Val{}
}

func (env *Env) binary(x *EBin) Val {
	boolT := types.Typ[types.Bool]
	switch x.Op {
	case "&&":
		return sc(and(env.evalB(x.L), env.evalB(x.R)), boolT)
	case "||":
		return sc(or(env.evalB(x.L), env.evalB(x.R)), boolT)
	case "==>":
		return sc(implies(env.evalB(x.L), env.evalB(x.R)), boolT)
	case "<==>":
		return sc("(= "+env.evalB(x.L)+" "+env.evalB(x.R)+")", boolT)
	}
	a, b := env.eval(x.L), env.eval(x.R)
	// constant folding
	if a.C != nil && b.C != nil {
		r := new(big.Int)
		switch x.Op {
		case "+":
			return constVal(r.Add(a.C, b.C))
		case "-":
			return constVal(r.Sub(a.C, b.C))
		case "*":
			return constVal(r.Mul(a.C, b.C))
		case "/":
			return constVal(r.Quo(a.C, b.C))
		case "%":
			return constVal(r.Rem(a.C, b.C))
		case "<<":
			return constVal(r.Lsh(a.C, uint(b.C.Int64())))
		case ">>":
			return constVal(r.Rsh(a.C, uint(b.C.Int64())))
		case "&":
			return constVal(r.And(a.C, b.C))
		case "|":
			return constVal(r.Or(a.C, b.C))
		case "^":
			return constVal(r.Xor(a.C, b.C))
		case "==":
			return sc(fmt.Sprint(a.C.Cmp(b.C) == 0), boolT)
		case "!=":
			return sc(fmt.Sprint(a.C.Cmp(b.C) != 0), boolT)
		case "<":
			return sc(fmt.Sprint(a.C.Cmp(b.C) < 0), boolT)
		case "<=":
			return sc(fmt.Sprint(a.C.Cmp(b.C) <= 0), boolT)
		case ">":
			return sc(fmt.Sprint(a.C.Cmp(b.C) > 0), boolT)
		case ">=":
			return sc(fmt.Sprint(a.C.Cmp(b.C) >= 0), boolT)
		}
	}
	if x.Op == "<<" || x.Op == ">>" {
		if a.C != nil {
			sfail("shift of an untyped constant: convert it first (%s)", exprString(x))
		}
		if b.C != nil {
			w, _ := intInfo(a.Typ)
			b = sc(bvLit(w, b.C), a.Typ)
		}
		op := token.SHL
		if x.Op == ">>" {
			op = token.SHR
		}
		return sc(shiftTerm(op, a.T, b.T, a.Typ, b.Typ), a.Typ)
	}
	if a.C != nil {
		a = env.typed(a, b.Typ)
	}
	if b.C != nil {
		b = env.typed(b, a.Typ)
	}
	switch x.Op {
	case "==":
		return sc(env.eq(a, b), boolT)
	case "!=":
		return sc(not(env.eq(a, b)), boolT)
	}
	if a.K != VScalar || b.K != VScalar || a.Typ == nil {
		sfail("operator %s on composite values in %s", x.Op, exprString(x))
	}
	if classOf(a.Typ) == CBool {
		sfail("operator %s on booleans", x.Op)
	}
	if classOf(a.Typ) != CInt {
		// references: only ordering on Int (birth etc.) is not exposed
		sfail("operator %s on non-integer %s", x.Op, exprString(x))
	}
	wa, signed := intInfo(a.Typ)
	if b.Typ != nil && classOf(b.Typ) == CInt {
		if wb, _ := intInfo(b.Typ); wb != wa {
			sfail("mixed integer widths in %s (%s vs %s)", exprString(x), typeShort(a.Typ), typeShort(b.Typ))
		}
	}
	f := func(n string) Val { return sc("("+n+" "+a.T+" "+b.T+")", a.Typ) }
	cmp := func(s, u string) Val {
		if !signed {
			if f := foldLit("(" + u + " " + a.T + " " + b.T + ")"); f == "true" || f == "false" {
				return sc(f, boolT)
			}
		}
		if signed {
			return sc("("+s+" "+a.T+" "+b.T+")", boolT)
		}
		return sc("("+u+" "+a.T+" "+b.T+")", boolT)
	}
	switch x.Op {
	case "+":
		return f("bvadd")
	case "-":
		return f("bvsub")
	case "*":
		return f("bvmul")
	case "/":
		if signed {
			return f("bvsdiv")
		}
		return f("bvudiv")
	case "%":
		if signed {
			return f("bvsrem")
		}
		return f("bvurem")
	case "&":
		return f("bvand")
	case "|":
		return f("bvor")
	case "^":
		return f("bvxor")
	case "&^":
		return sc("(bvand "+a.T+" (bvnot "+b.T+"))", a.Typ)
	case "<":
		return cmp("bvslt", "bvult")
	case "<=":
		return cmp("bvsle", "bvule")
	case ">":
		return cmp("bvsgt", "bvugt")
	case ">=":
		return cmp("bvsge", "bvuge")
	}
	sfail("operator %s", x.Op)
	return Val{}
}

func (env *Env) evalB(e Expr) string {
	v := env.eval(e)
	if v.K != VScalar || v.C != nil {
		sfail("boolean expected: %s", exprString(e))
	}
	return v.T
}

func (env *Env) eq(a, b Val) string {
	// nil comparisons
	isNil := func(v Val) bool { return v.K == VScalar && v.Typ == types.Typ[types.UntypedNil] }
	if isNil(b) {
		a, b = b, a
	}
	if isNil(a) {
		switch b.K {
		case VIface, VSlice, VUPtr:
			return "(= " + b.F[0].T + " 0)"
		case VScalar:
			return "(= " + b.T + " 0)"
		}
		sfail("comparison of composite with nil")
	}
	if a.K != b.K {
		sfail("comparison of differently shaped values")
	}
	if a.K == VScalar && (a.Typ == nil || b.Typ == nil) {
		return "(= " + a.T + " " + b.T + ")"
	}
	if a.K == VScalar && a.Ghost {
		return "(= " + a.T + " " + b.T + ")"
	}
	if a.K == VSlice && b.K == VSlice {
		// specification-level equality of slices: same backing store and same length (Go itself only compares with nil)
		return "(and (= " + a.F[0].T + " " + b.F[0].T + ") (= " + a.F[1].T + " " + b.F[1].T + "))"
	}
	return env.c.eqVal(a, b)
}

func (env *Env) callExpr(x *ECall) Val {
	c := env.c
	id, ok := x.Fn.(*EIdent)
	if !ok {
		sfail("call of non-identifier %s", exprString(x.Fn))
	}
	name := id.Name
	boolT := types.Typ[types.Bool]
	switch name {
	case "old":
		o := env.with(env.old)
		o.inOld = true
		return o.eval(x.Args[0])
	case "pre":
		if env.loopIn == nil {
			sfail("pre() outside a loop invariant")
		}
		return env.with(env.loopIn).eval(x.Args[0])
	case "ite":
		cnd := env.evalB(x.Args[0])
		a, b := env.eval(x.Args[1]), env.eval(x.Args[2])
		if a.C != nil && b.C != nil { // untyped constants default to int, as in Go
			a, b = env.typed(a, types.Typ[types.Int]), env.typed(b, types.Typ[types.Int])
		}
		if a.C != nil {
			a = env.typed(a, b.Typ)
		}
		if b.C != nil {
			b = env.typed(b, a.Typ)
		}
		// nil against a composite value: the zero value of that shape
		isNil := func(v Val) bool { return v.K == VScalar && v.Typ == types.Typ[types.UntypedNil] }
		if isNil(b) && a.K != VScalar && a.Typ != nil {
			b = c.zeroVal(a.Typ)
		} else if isNil(a) && b.K != VScalar && b.Typ != nil {
			a = c.zeroVal(b.Typ)
		}
		return iteVal(cnd, a, b)
	case "len", "cap":
		v := env.eval(x.Args[0])
		switch {
		case v.K == VSlice && name == "len":
			return sc(v.F[1].T, types.Typ[types.Int])
		case v.K == VSlice:
			return sc(v.F[2].T, types.Typ[types.Int])
		case v.K == VScalar && v.Typ != nil:
			if _, ok := under(v.Typ).(*types.Map); ok && !v.Ghost {
				m := c.mapInfo(v.Typ)
				return sc(fmt.Sprintf("(ite (= %s 0) %s (select %s %s))", v.T, bvInt(64, 0), c.hget(env.cur, m.ln), v.T), types.Typ[types.Int])
			}
			if a, ok := under(v.Typ).(*types.Array); ok {
				return sc(bvInt(64, a.Len()), types.Typ[types.Int])
			}
		}
		sfail("len of %s", exprString(x.Args[0]))
	case "mapHas":
		v := env.eval(x.Args[0])
		mt, ok := under(v.Typ).(*types.Map)
		if !ok {
			sfail("mapHas on non-map")
		}
		k := env.typed(env.eval(x.Args[1]), mt.Key())
		has, _ := c.mapGet(env.cur, v.Typ, v.T, c.mapKey(k))
		return sc(has, boolT)
	case "is", "as":
		v := env.eval(x.Args[0])
		if v.K != VIface {
			sfail("%s() needs an interface value", name)
		}
		t := env.resolveType(x.Args[1].(*EType).T)
		if name == "is" {
			return sc(fmt.Sprintf("(= %s %d)", v.F[0].T, c.typeTag(t)), boolT)
		}
		if classOf(t) == CStruct {
			return c.loadStruct(env.cur, t, v.F[1].T)
		}
		return sc(v.F[1].T, t)
	case "arr":
		v := Val{K: VArr}
		for _, a := range x.Args {
			v.F = append(v.F, env.eval(a))
		}
		return v
	case "mk":
		t := env.resolveType(x.Args[0].(*EType).T)
		s, ok := under(t).(*types.Struct)
		if !ok || s.NumFields() != len(x.Args)-1 {
			sfail("mk(%s, ...) needs %d field values", t, s.NumFields())
		}
		v := Val{K: VStruct, Typ: t}
		for i := 0; i < s.NumFields(); i++ {
			f := env.typed(env.eval(x.Args[i+1]), s.Field(i).Type())
			if f.K == VArr {
				at, ok := under(s.Field(i).Type()).(*types.Array)
				if !ok || int(at.Len()) != len(f.F) {
					sfail("arr() does not fit field %s", s.Field(i).Name())
				}
				f.Typ = s.Field(i).Type()
				for j := range f.F {
					f.F[j] = env.typed(f.F[j], at.Elem())
					f.F[j].Typ = at.Elem()
				}
			}
			if f.K == VScalar && f.Typ == types.Typ[types.UntypedNil] {
				f = c.zeroVal(s.Field(i).Type())
			}
			if f.K == VScalar && f.Typ != nil {
				f.Typ = s.Field(i).Type()
			}
			v.F = append(v.F, f)
		}
		return v
	case "popcount":
		v := env.eval(x.Args[0])
		return sc(popcount64(v.T), types.Typ[types.Int])
	case "fresh":
		v := env.eval(x.Args[0])
		return sc(fmt.Sprintf("(>= (birth %s) %s)", refTerm(v), env.old.now), boolT)
	case "allocated":
		v := env.eval(x.Args[0])
		return sc(fmt.Sprintf("(< (birth %s) %s)", refTerm(v), env.cur.now), boolT)
	case "ref":
		v := env.eval(x.Args[0])
		return refVal(refTerm(v))
	case "typeid": // typeid(T): the engine's tag of type T (distinct types have distinct tags)
		id, ok := x.Args[0].(*EIdent)
		if !ok {
			sfail("typeid(T) needs a type name")
		}
		t := env.resolveType(TypeExpr{Kind: "name", Name: id.Name})
		return sc(bvInt(64, int64(c.typeTag(t))), types.Typ[types.Int])
	case "asRef": // asRef(p): the typed pointer obtained by converting the unsafe.Pointer p (same function as the conversion in code)
		v := env.eval(x.Args[0])
		if v.K != VUPtr {
			sfail("asRef needs an unsafe.Pointer")
		}
		return refVal(c.ufApp("uptr2ref", []string{v.F[0].T, v.F[1].T}, []string{"Int", sortIdx}, "Int"))
	case "unchanged": // unchanged(e): value of e in the current state equals its value in the old state
		a, b := env.eval(x.Args[0]), env.with(env.old).eval(x.Args[0])
		return sc(env.eq(a, b), boolT)
	}
	if t, ok := env.isTypeName(name); ok && len(x.Args) == 1 {
		return env.conv(env.eval(x.Args[0]), t)
	}
	if p := c.DB.Preds[name]; p != nil {
		if len(p.Params) != len(x.Args) {
			sfail("pred %s takes %d arguments", name, len(p.Params))
		}
		if env.depth > 30 {
			sfail("pred recursion too deep at %s", name)
		}
		sub := &Env{c: c, vars: map[string]Val{}, cur: env.cur, old: env.old, loopIn: env.loopIn, pkg: p.Pkg, depth: env.depth + 1, tsubst: env.tsubst, fr: env.fr}
		for i, b := range p.Params {
			pt := sub.resolveType(b.T)
			v := env.eval(x.Args[i])
			v = env.typed(v, pt)
			sub.vars[b.Name] = env.coerce(v, pt, name, b.Name)
		}
		r := sub.eval(p.Body)
		rt := sub.resolveType(p.Ret)
		return env.typed(r, rt)
	}
	if u := c.DB.Ufs[name]; u != nil {
		if !c.ufs["axioms/"+name] {
			c.ufs["axioms/"+name] = true
			for _, ax := range c.DB.Axioms {
				if ax.UF == name {
					aenv := &Env{c: c, pkg: ax.Pkg, vars: map[string]Val{}, cur: c.st0, old: c.st0}
					if aenv.cur == nil {
						aenv.cur, aenv.old = env.cur, env.old
					}
					c.emit("(assert " + aenv.evalB(ax.E) + ")")
					c.note("definitional axiom for " + name + ": " + ax.Text)
				}
			}
		}
		var ts, ss []string
		sub := &Env{c: c, pkg: u.Pkg, vars: map[string]Val{}}
		for i, b := range u.Params {
			pt := sub.resolveType(b.T)
			v := env.typed(env.eval(x.Args[i]), pt)
			ts = append(ts, flat(v)...)
			ss = append(ss, flatSorts(c.zeroVal(pt))...)
		}
		rt := sub.resolveType(u.Ret)
		if _, isPtr := under(rt).(*types.Pointer); isPtr && !c.ufs["ancient/"+name] && len(ss) > 0 {
			// a pure function cannot return memory allocated by the function under analysis
			c.ufs["ancient/"+name] = true
			app := c.ufApp("uf$"+name, ts, ss, "Int")
			_ = app
			var decl, vars []string
			for i, s := range ss {
				v := fmt.Sprintf("q.u%d", i)
				decl = append(decl, "("+v+" "+s+")")
				vars = append(vars, v)
			}
			c.emit(fmt.Sprintf("(assert (forall (%s) (! (< (birth (uf$%s %s)) now0) :pattern ((uf$%s %s)))))", strings.Join(decl, " "), name, strings.Join(vars, " "), name, strings.Join(vars, " ")))
		}
		if cl := classOf(rt); cl == CStruct || cl == CSlice || cl == CIface || cl == CUPtr || cl == CSmallArr {
			tmpl := c.zeroVal(rt)
			var out []string
			for i, s := range flatSorts(tmpl) {
				out = append(out, c.ufApp(fmt.Sprintf("uf$%s.%d", name, i), ts, ss, s))
			}
			p := 0
			return rebuild(tmpl, out, &p)
		}
		return sc(c.ufApp("uf$"+name, ts, ss, scalarSort(rt)), rt)
	}
	sfail("unknown function %s in specification", name)
	return Val{}
}

func refTerm(v Val) string {
	switch v.K {
	case VScalar:
		return v.T
	case VSlice, VIface, VUPtr:
		return v.F[0].T
	}
	sfail("reference expected")
	return ""
}

func (env *Env) coerce(v Val, t types.Type, fn, param string) Val {
	if v.K == VScalar && v.Typ == types.Typ[types.UntypedNil] {
		return env.c.zeroVal(t)
	}
	return v
}

func (env *Env) conv(v Val, t types.Type) Val {
	if v.C != nil {
		return env.typed(v, t)
	}
	if v.K == VScalar && v.Typ != nil && classOf(v.Typ) == CInt && classOf(t) == CInt {
		return sc(convInt(v.T, v.Typ, t), t)
	}
	if v.K == VStruct || v.K == VScalar {
		r := v
		r.Typ = t
		return r
	}
	sfail("unsupported conversion to %s", t)
	return Val{}
}

func (env *Env) quant(x *EQuant) Val {
	boolT := types.Typ[types.Bool]
	if x.Expand {
		var parts []string
		var rec func(i int, e *Env)
		rec = func(i int, e *Env) {
			if i == len(x.Vars) {
				parts = append(parts, e.evalB(x.Body))
				return
			}
			t := e.resolveType(x.Vars[i].T)
			switch classOf(t) {
			case CBool:
				rec(i+1, e.bind(x.Vars[i].Name, sc("false", t)))
				rec(i+1, e.bind(x.Vars[i].Name, sc("true", t)))
			case CInt:
				w, _ := intInfo(t)
				if w > 8 {
					sfail("expanded quantifier over %s", t)
				}
				for v := int64(0); v < 1<<uint(w); v++ {
					rec(i+1, e.bind(x.Vars[i].Name, sc(bvInt(w, v), t)))
				}
			default:
				sfail("expanded quantifier over %s", t)
			}
		}
		rec(0, env)
		if x.Forall {
			return sc(and(parts...), boolT)
		}
		return sc(or(parts...), boolT)
	}
	e := env
	var decls []string
	for _, b := range x.Vars {
		t := env.resolveType(b.T)
		if cl := classOf(t); cl == CStruct || cl == CSmallArr {
			// a value-typed binder (Mask, Entity): one bound variable per scalar leaf
			tmpl := env.c.zeroVal(t)
			var names []string
			for _, s := range flatSorts(tmpl) {
				n := env.c.uniq("q." + b.Name)
				names = append(names, n)
				decls = append(decls, "("+n+" "+s+")")
			}
			p := 0
			e = e.bind(b.Name, rebuild(tmpl, names, &p))
			continue
		}
		if classOf(t) == CSlice || classOf(t) == CIface {
			sfail("quantified variable %s of composite type", b.Name)
		}
		n := env.c.uniq("q." + b.Name)
		decls = append(decls, "("+n+" "+scalarSort(t)+")")
		e = e.bind(b.Name, sc(n, t))
	}
	body := e.evalB(x.Body)
	if len(x.Pats) > 0 {
		var ps []string
		for _, p := range x.Pats {
			t := e.patternTerm(p)
			if t != "" {
				ps = append(ps, t)
			}
		}
		alts := ""
		if len(x.Pats) == 1 {
			// a composite-valued trigger (interface, slice header): every component is an alternative pattern
			if call, ok := x.Pats[0].(*ECall); !ok || !isMapHas(call) {
				if pv := e.eval(x.Pats[0]); pv.K != VScalar {
					for _, t := range flat(pv) {
						if okPattern(t) && (len(ps) == 0 || t != ps[0]) {
							alts += " :pattern (" + t + ")"
						}
					}
				}
			}
		}
		if len(ps) > 0 {
			body = "(! " + body + " :pattern (" + strings.Join(ps, " ") + ")" + alts + ")"
		}
	}
	q := "exists"
	if x.Forall {
		q = "forall"
	}
	return sc("("+q+" ("+strings.Join(decls, " ")+") "+body+")", boolT)
}

// patternTerm renders a trigger; logical connectives are not allowed in SMT patterns, so
// mapHas(m,k) is represented by its membership select and other boolean-structured terms are dropped.
func (env *Env) patternTerm(p Expr) string {
	if call, ok := p.(*ECall); ok {
		if id, ok := call.Fn.(*EIdent); ok && id.Name == "mapHas" {
			v := env.eval(call.Args[0])
			mt := under(v.Typ).(*types.Map)
			k := env.typed(env.eval(call.Args[1]), mt.Key())
			m := env.c.mapInfo(v.Typ)
			return fmt.Sprintf("(select (select %s %s) %s)", env.c.hget(env.cur, m.has), v.T, env.c.mapKey(k))
		}
	}
	pv := env.eval(p)
	if pv.K != VScalar {
		ts := flat(pv)
		if len(ts) == 0 {
			return ""
		}
		pv.T = ts[len(ts)-1]
	}
	if !okPattern(pv.T) {
		return ""
	}
	return pv.T
}

func isMapHas(call *ECall) bool {
	id, ok := call.Fn.(*EIdent)
	return ok && id.Name == "mapHas"
}

func okPattern(t string) bool {
	for _, bad := range []string{"(and ", "(or ", "(not ", "(=> ", "(= ", "(ite ", "(bvult ", "(bvslt ", "(bvsle ", "(bvule "} {
		if strings.HasPrefix(t, bad) {
			return false
		}
	}
	return strings.HasPrefix(t, "(") && strings.Contains(t, "q.")
}

// ---------- modifies targets ----------

type modTarget struct {
	heap string
	key  string
	key2 string
	all  bool
	pred func(r string) string
}

// modTargets resolves one modifies expression to heap locations (evaluated in env.cur = pre-state).
func (c *Ctx) modTargets(env *Env, m Expr) []modTarget {
	var out []modTarget
	addCell := func(heap string, typ types.Type, key, key2 string) {
		for _, lf := range leavesOf(typ) {
			out = append(out, modTarget{heap: heap + lf.suffix, key: key, key2: key2})
		}
	}
	var allFields func(t types.Type, ref string)
	allFields = func(t types.Type, ref string) {
		s := under(t).(*types.Struct)
		for i := 0; i < s.NumFields(); i++ {
			f := s.Field(i)
			if classOf(f.Type()) == CStruct {
				allFields(f.Type(), c.subRef(t, f.Name(), ref))
			} else {
				l := c.fieldLoc(t, f, ref)
				addCell(l.heap, f.Type(), ref, "")
			}
		}
		for _, g := range c.DB.Ghosts {
			if g.Struct == structName(t) {
				name, _, _ := env.ghostHeap(g)
				out = append(out, modTarget{heap: name, key: ref})
			}
		}
	}
	switch x := m.(type) {
	case *EUn:
		if x.Op == "*" {
			v := env.eval(x.X)
			pt, ok := under(v.Typ).(*types.Pointer)
			if !ok || classOf(pt.Elem()) != CStruct {
				sfail("modifies *x needs a pointer to struct")
			}
			allFields(pt.Elem(), v.T)
			return out
		}
	case *ECall:
		if id, ok := x.Fn.(*EIdent); ok && id.Name == "mapsOf" {
			// mapsOf(Type.field): the contents of every map of the field's map type
			sel, ok := x.Args[0].(*ESel)
			if !ok {
				sfail("mapsOf(Type.field)")
			}
			t := env.resolveType(TypeExpr{Kind: "name", Name: sel.X.(*EIdent).Name})
			st := under(t).(*types.Struct)
			for i := 0; i < st.NumFields(); i++ {
				if st.Field(i).Name() == sel.Name {
					m := c.mapInfo(st.Field(i).Type())
					out = append(out, modTarget{heap: m.has, all: true}, modTarget{heap: m.ln, all: true})
					for _, lf := range m.vleaves {
						out = append(out, modTarget{heap: m.val + lf.suffix, all: true})
					}
					return out
				}
			}
			sfail("mapsOf(): no field %s", sel.Name)
		}
		if id, ok := x.Fn.(*EIdent); ok && id.Name == "elems" {
			// elems(T): every element of every []T backing store (whole element heap)
			var et types.Type
			switch a := x.Args[0].(type) {
			case *EIdent:
				et = env.resolveType(TypeExpr{Kind: "name", Name: a.Name})
			case *EUn: // elems(*T)
				id, ok := a.X.(*EIdent)
				if a.Op != "*" || !ok {
					sfail("elems(T) / elems(*T)")
				}
				et = types.NewPointer(env.resolveType(TypeExpr{Kind: "name", Name: id.Name}))
			default:
				sfail("elems(T)")
			}
			if classOf(et) == CStruct {
				sfail("elems() of struct elements")
			}
			c.elemLoc(et, "0", bvInt(64, 0))
			for _, lf := range leavesOf(et) {
				out = append(out, modTarget{heap: elemHeap(et) + lf.suffix, all: true})
			}
			return out
		}
		if id, ok := x.Fn.(*EIdent); ok && id.Name == "all" {
			// all(Type.field): the whole field heap
			sel, ok := x.Args[0].(*ESel)
			if !ok {
				sfail("all(Type.field)")
			}
			tn := ""
			switch tx := sel.X.(type) {
			case *EIdent:
				tn = tx.Name
			case *EIndex: // generic instance: pointers[archetype].pointers
				tn = tx.X.(*EIdent).Name + "[" + tx.I.(*EIdent).Name + "]"
			default:
				sfail("all(Type.field)")
			}
			t := env.resolveType(TypeExpr{Kind: "name", Name: tn})
			s := under(t).(*types.Struct)
			for i := 0; i < s.NumFields(); i++ {
				if s.Field(i).Name() == sel.Name {
					if classOf(s.Field(i).Type()) == CStruct {
						// a struct embedded by value: every leaf field heap of that struct type, whole
						var walk func(st types.Type)
						walk = func(st types.Type) {
							ss := under(st).(*types.Struct)
							for j := 0; j < ss.NumFields(); j++ {
								if classOf(ss.Field(j).Type()) == CStruct {
									walk(ss.Field(j).Type())
									continue
								}
								l := c.fieldLoc(st, ss.Field(j), "0")
								for _, lf := range leavesOf(ss.Field(j).Type()) {
									out = append(out, modTarget{heap: l.heap + lf.suffix, all: true})
								}
							}
						}
						walk(s.Field(i).Type())
						return out
					}
					l := c.fieldLoc(t, s.Field(i), "0")
					for _, lf := range leavesOf(s.Field(i).Type()) {
						out = append(out, modTarget{heap: l.heap + lf.suffix, all: true})
					}
					return out
				}
			}
			if g := env.ghostOf(t, sel.Name); g != nil {
				name, _, _ := env.ghostHeap(g)
				return []modTarget{{heap: name, all: true}}
			}
			sfail("all(): no field %s", sel.Name)
		}
	case *ESel:
		base, ok := env.structBase(x.X)
		if !ok {
			sfail("modifies %s: base is not a struct object", exprString(m))
		}
		s := under(base.typ).(*types.Struct)
		for i := 0; i < s.NumFields(); i++ {
			f := s.Field(i)
			if f.Name() == x.Name {
				if classOf(f.Type()) == CStruct {
					allFields(f.Type(), c.subRef(base.typ, f.Name(), base.ref))
				} else {
					l := c.fieldLoc(base.typ, f, base.ref)
					addCell(l.heap, f.Type(), base.ref, "")
				}
				return out
			}
		}
		if g := env.ghostOf(base.typ, x.Name); g != nil {
			name, _, _ := env.ghostHeap(g)
			return []modTarget{{heap: name, key: base.ref}}
		}
		// promoted through embedded pointer
		for i := 0; i < s.NumFields(); i++ {
			f := s.Field(i)
			if pt, ok := under(f.Type()).(*types.Pointer); ok && f.Embedded() && classOf(pt.Elem()) == CStruct && (hasField(pt.Elem(), x.Name) || env.ghostOf(pt.Elem(), x.Name) != nil) {
				pv := c.loadLocQuiet(env.cur, c.fieldLoc(base.typ, f, base.ref))
				return c.modTargetsAt(env, place{pv.T, pt.Elem()}, x.Name)
			}
			if f.Embedded() && classOf(f.Type()) == CStruct && (hasField(f.Type(), x.Name) || env.ghostOf(f.Type(), x.Name) != nil) {
				return c.modTargetsAt(env, place{c.subRef(base.typ, f.Name(), base.ref), f.Type()}, x.Name)
			}
		}
		sfail("modifies: no field %s", x.Name)
	case *EIndex:
		if id, ok := x.X.(*EIdent); ok {
			if g := c.DB.Globals[id.Name]; g != nil {
				hn, _ := env.globalHeap(g)
				if ai, ok := x.I.(*EIdent); ok && ai.Name == "ALL" {
					return []modTarget{{heap: hn, all: true}}
				}
				return []modTarget{{heap: hn, key: refTerm(env.eval(x.I))}}
			}
		}
		v := env.eval(x.X)
		allIdx := false
		if id, ok := x.I.(*EIdent); ok && id.Name == "ALL" {
			allIdx = true
		}
		switch {
		case v.K == VSlice:
			et := under(v.Typ).(*types.Slice).Elem()
			if classOf(et) == CStruct {
				if !allIdx {
					allFields(et, c.elemRef(v.F[0].T, env.idx(env.eval(x.I))))
					return out
				}
				data := v.F[0].T
				var walk func(t types.Type, inv func(string) string)
				walk = func(t types.Type, inv func(string) string) {
					s := under(t).(*types.Struct)
					for i := 0; i < s.NumFields(); i++ {
						f := s.Field(i)
						if classOf(f.Type()) == CStruct {
							fn := c.subRef(t, f.Name(), "q.x")
							fn = fn[1:strings.Index(fn, " ")]
							walk(f.Type(), func(r string) string { return inv("(inv." + fn + " " + r + ")") })
							continue
						}
						l := c.fieldLoc(t, f, "0")
						for _, lf := range leavesOf(f.Type()) {
							iv := inv
							out = append(out, modTarget{heap: l.heap + lf.suffix, pred: func(r string) string { return c.elemOfPred(iv(r), data, nil) }})
						}
					}
				}
				walk(et, func(r string) string { return r })
				return out
			}
			l := c.elemLoc(et, v.F[0].T, bvInt(64, 0))
			if allIdx {
				addCell(l.heap, et, v.F[0].T, "")
			} else {
				addCell(l.heap, et, v.F[0].T, env.idx(env.eval(x.I)))
			}
			return out
		case v.K == VScalar && v.Typ != nil:
			if _, ok := under(v.Typ).(*types.Map); ok && !v.Ghost {
				mi := c.mapInfo(v.Typ)
				out = append(out, modTarget{heap: mi.has, key: v.T}, modTarget{heap: mi.ln, key: v.T})
				for _, lf := range mi.vleaves {
					out = append(out, modTarget{heap: mi.val + lf.suffix, key: v.T})
				}
				return out
			}
		}
	}
	sfail("unsupported modifies target %s", exprString(m))
	return nil
}

func (c *Ctx) modTargetsAt(env *Env, base place, name string) []modTarget {
	e2 := env.bind("$base", sc(base.ref, types.NewPointer(base.typ)))
	return c.modTargets(e2, &ESel{&EIdent{"$base"}, name})
}
