package main

import (
	"fmt"
	"go/types"
	"os"
	"strings"

	"golang.org/x/tools/go/ssa"
)

func (c *Ctx) call(fr *Frame, st *State, x *ssa.Call) {
	cc := x.Common()
	var args []Val
	for _, a := range cc.Args {
		args = append(args, c.val(fr, a))
	}
	setRes := func(v Val) {
		if x.Type() != nil {
			if tp, ok := x.Type().(*types.Tuple); ok && tp.Len() == 0 {
				return
			}
		}
		fr.vals[x] = v
	}
	if cc.IsInvoke() {
		recv := c.val(fr, cc.Value)
		key := ifaceKey(cc.Value.Type(), cc.Method.Name())
		spec := c.DB.Funcs[key]
		if spec == nil && (!strings.HasPrefix(pkgPathOfType(cc.Value.Type()), modPath) || strings.HasPrefix(key, "generic.Comp.")) {
			// methods of foreign interfaces (reflect.Type): uninterpreted pure functions of receiver and arguments
			c.note("methods of foreign interface " + typeShort(cc.Value.Type()) + " are uninterpreted pure functions")
			var ts, ss []string
			for _, a := range append([]Val{recv}, args...) {
				if a.K == VLoc || a.K == VFunc {
					continue
				}
				ts = append(ts, flat(a)...)
				ss = append(ss, flatSorts(a)...)
			}
			res := cc.Signature().Results()
			mk := func(t types.Type, n int) Val {
				tmpl := c.zeroVal(t)
				var out []string
				for i, s := range flatSorts(tmpl) {
					out = append(out, c.ufApp(fmt.Sprintf("ext$%s.%d.%d", smtName(key), n, i), ts, ss, s))
				}
				p := 0
				return rebuild(tmpl, out, &p)
			}
			switch res.Len() {
			case 0:
			case 1:
				setRes(mk(res.At(0).Type(), 0))
			default:
				v := Val{K: VTuple, Typ: res}
				for i := 0; i < res.Len(); i++ {
					v.F = append(v.F, mk(res.At(i).Type(), i))
				}
				setRes(v)
			}
			return
		}
		if spec == nil {
			panic(unsupported("interface call without contract: " + key))
		}
		c.safe(st, fr, "safe/nil", "(not (= "+recv.F[0].T+" 0))", "method call on nil interface")
		setRes(c.callByContract(fr, st, spec, key, append([]Val{recv}, args...), cc.Signature().Results(), x))
		return
	}
	switch f := cc.Value.(type) {
	case *ssa.Builtin:
		setRes(c.builtin(fr, st, f.Name(), args, cc.Args, x))
		return
	case *ssa.Function:
		setRes(c.staticCall(fr, st, f, args, x))
		return
	}
	// dynamic call through a function value
	fv := c.valOrNil(fr, cc.Value)
	if fv != nil && fv.K == VFunc && fv.Fn != "" {
		if callee := c.P.Funcs[fv.Fn]; callee != nil {
			if fv.Recv != nil {
				args = append([]Val{*fv.Recv}, args...)
			}
			setRes(c.staticCall(fr, st, callee, args, x))
			return
		}
	}
	// function-typed field: contract keyed by the field
	if u, ok := cc.Value.(*ssa.UnOp); ok {
		if fa, ok := u.X.(*ssa.FieldAddr); ok {
			pt := under(fa.X.Type()).(*types.Pointer).Elem()
			s := under(pt).(*types.Struct)
			key := pkgOfType(pt) + "." + typeShort(pt) + "." + s.Field(fa.Field).Name()
			if spec := c.DB.Funcs[key]; spec != nil {
				self := c.val(fr, fa.X)
				setRes(c.callByContract(fr, st, spec, key, append([]Val{self}, args...), cc.Signature().Results(), x))
				return
			}
			panic(unsupported("call through function field without contract: " + key))
		}
	}
	panic(unsupported("dynamic call " + x.String()))
}

func (c *Ctx) valOrNil(fr *Frame, v ssa.Value) (r *Val) {
	defer func() {
		if e := recover(); e != nil {
			r = nil
		}
	}()
	x := c.val(fr, v)
	return &x
}

func pkgPathOfType(t types.Type) string {
	if n, ok := types.Unalias(t).(*types.Named); ok && n.Obj().Pkg() != nil {
		return n.Obj().Pkg().Path()
	}
	return ""
}

func pkgOfType(t types.Type) string {
	if n, ok := types.Unalias(t).(*types.Named); ok && n.Obj().Pkg() != nil {
		return n.Obj().Pkg().Name()
	}
	return "?"
}

func ifaceKey(t types.Type, method string) string {
	return pkgOfType(t) + "." + typeShort(t) + "." + method
}

// ---------- builtins ----------

func (c *Ctx) builtin(fr *Frame, st *State, name string, args []Val, sargs []ssa.Value, x *ssa.Call) Val {
	switch name {
	case "len", "cap":
		a := args[0]
		switch t := under(sargs[0].Type()).(type) {
		case *types.Slice:
			if name == "len" {
				return sc(a.F[1].T, types.Typ[types.Int])
			}
			return sc(a.F[2].T, types.Typ[types.Int])
		case *types.Map:
			m := c.mapInfo(sargs[0].Type())
			return sc(fmt.Sprintf("(ite (= %s 0) %s (select %s %s))", a.T, bvInt(64, 0), c.hget(st, m.ln), a.T), types.Typ[types.Int])
		case *types.Array:
			return sc(bvInt(64, t.Len()), types.Typ[types.Int])
		case *types.Pointer:
			return sc(bvInt(64, under(t.Elem()).(*types.Array).Len()), types.Typ[types.Int])
		case *types.Basic: // string
			return sc(c.ufApp("ext$strlen", []string{a.T}, []string{"Int"}, sortIdx), types.Typ[types.Int])
		}
	case "append":
		return c.doAppend(fr, st, args[0], args[1], sargs[0].Type())
	case "copy":
		return c.doCopy(fr, st, args[0], args[1], sargs[0].Type(), sargs[1].Type())
	case "delete":
		c.mapDelete(st, sargs[0].Type(), args[0].T, c.mapKey(args[1]))
		return Val{K: VTuple}
	case "min", "max":
		_, signed := intInfo(sargs[0].Type())
		op := "bvult"
		if signed {
			op = "bvslt"
		}
		a, b := args[0].T, args[1].T
		if name == "max" {
			a, b = b, a
		}
		return sc(fmt.Sprintf("(ite (%s %s %s) %s %s)", op, a, b, a, b), sargs[0].Type())
	}
	panic(unsupported("builtin " + name))
}

// doAppend models append(s, t...). In place when capacity suffices (Go semantics), else a fresh backing store.
func (c *Ctx) doAppend(fr *Frame, st *State, s, t Val, styp types.Type) Val {
	et := under(styp).(*types.Slice).Elem()
	if t.K != VSlice {
		panic(unsupported("append of non-slice"))
	}
	sd, sl, scp := s.F[0].T, s.F[1].T, s.F[2].T
	td, tl := t.F[0].T, t.F[1].T
	newLen := c.define("app.len", sortIdx, "(bvadd "+sl+" "+tl+")")
	fits := c.define("app.fits", "Bool", "(bvsle "+newLen+" "+scp+")")
	c.assumeUnder(st, "(bvslt "+newLen+" #x0000000080000000)") // A1
	c.note("A1: slice lengths stay below 2^31")
	fresh := c.alloc(st, "app")
	data := c.define("app.d", "Int", "(ite "+fits+" "+sd+" "+fresh+")")
	ncap := c.declare("app.cap", sortIdx)
	c.assumeUnder(st, fmt.Sprintf("(and (bvsle %s %s) (bvslt %s #x0000000080000000) (=> %s (= %s %s)))", newLen, ncap, ncap, fits, ncap, scp))
	// appended with an empty/nil first operand and empty second: Go returns s unchanged; covered by fits when tl = 0.
	one := isLit(tl, 1)
	if classOf(et) == CStruct {
		if !one {
			// fresh store: copy prefix; then elements [sl, sl+tl) come from t
			c.copyStructElemsOff(st, et, sd, fresh, bvInt(64, 0), sl, not(fits))
			c.copyStructElemsOff(st, et, td, data, sl, tl, "true")
		} else {
			// element value
			ev := c.loadStruct(st, et, c.elemRef(td, bvInt(64, 0)))
			// fresh store: copy prefix (quantified), then write element
			c.copyStructElems(st, et, sd, fresh, sl, not(fits))
			c.storeStruct(st, et, c.elemRef(data, sl), ev)
		}
		if !c.isFreshRef(sd) && worldStore("F$"+typeKey(et)+"$", "(elem "+sd+" 0)") {
			st.dirty = or(st.dirty, fits)
		}
	} else {
		name := elemHeap(et)
		c.elemLoc(et, sd, bvInt(64, 0))
		for _, lf := range leavesOf(et) {
			hn := name + lf.suffix
			cur := c.hget(st, hn)
			src := "(select " + cur + " " + sd + ")"
			var na string
			if one {
				na = fmt.Sprintf("(store %s %s (select (select %s %s) %s))", src, sl, cur, td, bvInt(64, 0))
			} else {
				arr := c.declare("app.arr", "(Array "+sortIdx+" "+lf.sort+")")
				c.assume(fmt.Sprintf("(forall ((q.i %s)) (! (= (select %s q.i) (ite (and (bvsle %s q.i) (bvslt q.i %s)) (select (select %s %s) (bvsub q.i %s)) (select %s q.i))) :pattern ((select %s q.i))))",
					sortIdx, arr, sl, newLen, cur, td, sl, src, arr), "")
				na = arr
			}
			c.hset(st, hn, fmt.Sprintf("(store %s %s %s)", cur, data, na))
		}
		if !c.isFreshRef(sd) && worldStore(name, sd) {
			st.dirty = or(st.dirty, fits)
		}
	}
	return Val{K: VSlice, Typ: styp, F: []Val{sc(data, nil), sc(newLen, nil), sc(ncap, nil)}}
}

func isLit(t string, v int64) bool { return t == bvInt(64, v) }

// copyStructElems: under cond, elements [0,n) of the struct backing store dst equal those of src.
func (c *Ctx) copyStructElems(st *State, et types.Type, src, dst, n, cond string) {
	c.copyStructElemsOff(st, et, src, dst, bvInt(64, 0), n, cond)
}

// copyStructElemsOff: under cond, dst[off+i] = src[i] for i in [0,n); everything else keeps its value.
func (c *Ctx) copyStructElemsOff(st *State, et types.Type, src, dst, off, n, cond string) {
	end := c.define("cp.end", sortIdx, "(bvadd "+off+" "+n+")")
	var walk func(t types.Type, wrapS, wrapD func(string) string)
	walk = func(t types.Type, wrapS, wrapD func(string) string) {
		s := under(t).(*types.Struct)
		for i := 0; i < s.NumFields(); i++ {
			f := s.Field(i)
			if classOf(f.Type()) == CStruct {
				tt := t
				fn := f.Name()
				walk(f.Type(), func(r string) string { return c.subRef(tt, fn, wrapS(r)) }, func(r string) string { return c.subRef(tt, fn, wrapD(r)) })
				continue
			}
			l := c.fieldLoc(t, f, "0")
			for _, lf := range leavesOf(f.Type()) {
				name := l.heap + lf.suffix
				cur := c.hget(st, name)
				nh := c.declare("Hc."+name, c.heaps[name].sort)
				se, de := wrapS(c.elemRef(src, "(bvsub q.i "+off+")")), wrapD(c.elemRef(dst, "q.i"))
				c.assume(fmt.Sprintf("(forall ((q.i %s)) (! (=> (and %s (bvsle %s q.i) (bvslt q.i %s)) (= (select %s %s) (select %s %s))) :pattern ((select %s %s))))",
					sortIdx, cond, off, end, nh, de, cur, se, nh, de), "")
				// frame: everything that is not one of the written elements of dst keeps its value
				root := rootOf(wrapD, "q.r")
				c.assume(fmt.Sprintf("(forall ((q.r Int)) (! (=> (not (and %s %s (bvsle %s (elemI %s)) (bvslt (elemI %s) %s))) (= (select %s q.r) (select %s q.r))) :pattern ((select %s q.r))))",
					cond, c.elemOfPred(root, dst, nil), off, root, root, end, nh, cur, nh), "")
				st.heap[name] = nh
			}
		}
	}
	walk(et, func(r string) string { return r }, func(r string) string { return r })
}

// rootOf: expression recovering the element reference from a (possibly nested sub-object) reference r.
func rootOf(wrap func(string) string, r string) string {
	w := wrap("q.hole")
	// w looks like (sub$A$f (sub$B$g @)); invert from outside in
	out := r
	for strings.HasPrefix(w, "(") {
		i := strings.Index(w, " ")
		fn := w[1:i]
		out = "(inv." + fn + " " + out + ")"
		w = w[i+1 : len(w)-1]
	}
	return out
}

func (c *Ctx) doCopy(fr *Frame, st *State, dst, src Val, dt, stp types.Type) Val {
	et := under(dt).(*types.Slice).Elem()
	n := c.define("copy.n", sortIdx, fmt.Sprintf("(ite (bvslt %s %s) %s %s)", dst.F[1].T, src.F[1].T, dst.F[1].T, src.F[1].T))
	if classOf(et) == CStruct {
		c.copyStructElems(st, et, src.F[0].T, dst.F[0].T, n, "true")
		if worldStore("F$"+typeKey(et)+"$", "(elem "+dst.F[0].T+" 0)") {
			c.markDirty(st, dst.F[0].T)
		}
		return sc(n, types.Typ[types.Int])
	}
	name := elemHeap(et)
	c.elemLoc(et, dst.F[0].T, bvInt(64, 0))
	for _, lf := range leavesOf(et) {
		hn := name + lf.suffix
		cur := c.hget(st, hn)
		arr := c.declare("copy.arr", "(Array "+sortIdx+" "+lf.sort+")")
		c.assume(fmt.Sprintf("(forall ((q.i %s)) (! (= (select %s q.i) (ite (and (bvsle #x0000000000000000 q.i) (bvslt q.i %s)) (select (select %s %s) q.i) (select (select %s %s) q.i))) :pattern ((select %s q.i))))",
			sortIdx, arr, n, cur, src.F[0].T, cur, dst.F[0].T, arr), "")
		c.hset(st, hn, fmt.Sprintf("(store %s %s %s)", cur, dst.F[0].T, arr))
	}
	if worldStore(name, dst.F[0].T) {
		c.markDirty(st, dst.F[0].T)
	}
	return sc(n, types.Typ[types.Int])
}

// ---------- static calls ----------

var pureExternal = map[string]bool{
	"fmt.Sprintf": true, "fmt.Sprint": true, "fmt.Sprintln": true, "fmt.Errorf": true, "reflect.TypeOf": true,
	"(reflect.Type).Name": true, "(reflect.Type).Kind": true, "(reflect.Type).NumField": true, "(reflect.Type).Field": true,
	"(reflect.Type).Size": true, "(reflect.Type).Align": true, "(reflect.Type).Elem": true, "(reflect.Type).String": true,
	"strings.Join": true, "strings.Repeat": true, "math/bits.OnesCount64": true, "math/bits.TrailingZeros64": true,
}

func (c *Ctx) staticCall(fr *Frame, st *State, callee *ssa.Function, args []Val, x *ssa.Call) Val {
	key := shortName(callee)
	pk := fnPkg(callee)
	inRepo := pk != nil && strings.HasPrefix(pk.Path(), modPath) && !strings.HasSuffix(pk.Path(), "/stats")
	if !inRepo {
		return c.externalCall(fr, st, callee, args, x)
	}
	if v, ok := c.lockfastCallee(fr, st, callee, args); ok {
		return v
	}
	spec := c.DB.Funcs[key]
	if spec == nil && callee.Origin() != nil {
		// generic instance: fall back to the contract of the generic origin
		spec = c.DB.Funcs[shortName(callee.Origin())]
	}
	if spec != nil {
		_, inl := spec.Flags["inline"]
		if _, lfi := spec.Flags["lfinline"]; lfi && c.lfMode {
			// functional contract that says nothing about writes under lock: the lock rule looks at the body instead
			inl = true
		}
		if !inl {
			return c.callByContract(fr, st, spec, key, args, callee.Signature.Results(), x)
		}
	}
	if callee.Blocks == nil {
		panic(unsupported("call to bodyless function " + key))
	}
	if c.depth >= maxInlineDepth {
		panic(unsupported("inline depth exceeded at " + key))
	}
	// inline
	c.inlined[key] = true
	sub := &Frame{fn: callee, key: key, vals: map[ssa.Value]Val{}, spec: spec}
	for i, p := range callee.Params {
		sub.vals[p] = args[i]
	}
	if len(callee.FreeVars) > 0 {
		panic(unsupported("closure call " + key))
	}
	c.depth++
	savedPos := c.curPos
	out, res := c.execBody(sub, st.clone())
	c.curPos = savedPos
	c.depth--
	if out == nil {
		// callee never returns normally
		st.reach = "false"
		return c.zeroValOfResults(callee.Signature.Results())
	}
	*st = *out
	if res.K == VTuple && len(res.F) == 0 {
		return res
	}
	return res
}

func (c *Ctx) zeroValOfResults(r *types.Tuple) Val {
	switch r.Len() {
	case 0:
		return Val{K: VTuple}
	case 1:
		return c.zeroVal(r.At(0).Type())
	}
	return c.zeroVal(r)
}

func (c *Ctx) externalCall(fr *Frame, st *State, callee *ssa.Function, args []Val, x *ssa.Call) Val {
	full := callee.String()
	res := callee.Signature.Results()
	if full == "math/bits.OnesCount64" {
		return sc(popcount64(args[0].T), types.Typ[types.Int])
	}
	if spec := c.DB.Funcs["ext."+full]; spec != nil {
		return c.callByContract(fr, st, spec, "ext."+full, args, res, x)
	}
	if pureExternal[full] || strings.HasPrefix(full, "fmt.") {
		c.note("external " + full + " is an uninterpreted pure function")
		var ts, ss []string
		for _, a := range args {
			if a.K == VLoc || a.K == VFunc {
				continue
			}
			for i, t := range flat(a) {
				ts = append(ts, t)
				ss = append(ss, flatSorts(fixTyp(a))[i])
			}
		}
		mk := func(t types.Type, n int) Val {
			tmpl := c.zeroVal(t)
			srt := flatSorts(tmpl)
			var out []string
			for i, s := range srt {
				out = append(out, c.ufApp(fmt.Sprintf("ext$%s.%d.%d", smtName(full), n, i), ts, ss, s))
			}
			p := 0
			return rebuild(tmpl, out, &p)
		}
		switch res.Len() {
		case 0:
			return Val{K: VTuple}
		case 1:
			return mk(res.At(0).Type(), 0)
		}
		v := Val{K: VTuple, Typ: res}
		for i := 0; i < res.Len(); i++ {
			v.F = append(v.F, mk(res.At(i).Type(), i))
		}
		return v
	}
	panic(unsupported("call to external function " + full))
}

// fixTyp gives untyped leaf holders a type so that flatSorts works.
func fixTyp(v Val) Val { return v }

func popcount64(x string) string {
	var terms []string
	for i := 0; i < 64; i++ {
		terms = append(terms, fmt.Sprintf("((_ zero_extend 63) ((_ extract %d %d) %s))", i, i, x))
	}
	return "(bvadd " + strings.Join(terms, " ") + ")"
}

// ---------- call by contract ----------

func (c *Ctx) callByContract(fr *Frame, st *State, spec *FuncSpec, key string, args []Val, results *types.Tuple, x *ssa.Call) Val {
	pre := st.clone()
	env := &Env{c: c, vars: map[string]Val{}, cur: pre, old: pre}
	if x != nil {
		if callee := x.Common().StaticCallee(); callee != nil && callee.Origin() != nil {
			// instance of a generic function: the origin's type parameters denote the type arguments of this call
			env.tsubst = map[string]types.Type{}
			tps, tas := callee.Origin().TypeParams(), callee.TypeArgs()
			for i := 0; tps != nil && i < tps.Len() && i < len(tas); i++ {
				env.tsubst[tps.At(i).Obj().Name()] = tas[i]
			}
		}
	}
	if len(spec.Params) != len(args) {
		panic(fmt.Errorf("contract %s binds %d parameters, call has %d arguments", key, len(spec.Params), len(args)))
	}
	for i, n := range spec.Params {
		env.vars[n] = args[i]
	}
	n := 0
	for _, cl := range spec.Clauses {
		switch cl.Kind {
		case "requires", "known":
			n++
			g := c.evalBool(env, cl.E)
			c.oblige(st, "pre", fmt.Sprintf("%s/pre@%s#%d", c.fn, key, n), g, "requires "+cl.Text)
		}
	}
	// panic exits of the callee
	_, mayPanic := spec.Flags["may_panic"]
	_, clean := spec.Flags["panic_clean"]
	if _, pr := spec.Flags["panic_restores"]; pr {
		clean = true // the callee proves (on_panic) that it restores what it changed before panicking
	}
	var pconds, lconds []string
	for _, cl := range spec.Clauses {
		if cl.Kind == "panics_if" || cl.Kind == "lockfast" {
			pc := c.evalBool(env, cl.E)
			pconds = append(pconds, pc)
			if cl.Kind == "lockfast" {
				lconds = append(lconds, pc)
			}
			d := "true"
			if clean || cl.Kind == "lockfast" {
				d = st.dirty
			}
			var pst *State
			if clean || cl.Kind == "lockfast" {
				pst = pre
			}
			c.panics = append(c.panics, &PanicExit{st: pst, reach: and(st.reach, pc), dirty: d, pos: c.P.pos(c.curPos), explicit: true, prefix: len(c.script), callee: key})
		}
	}
	if mayPanic {
		b := c.declare("maypanic", "Bool")
		d := "true"
		if clean {
			d = st.dirty
		} else if len(lconds) > 0 {
			// the callee proves: under a lockfast condition every one of its panics comes before any write
			d = or(st.dirty, not(or(lconds...)))
		}
		c.panics = append(c.panics, &PanicExit{reach: and(st.reach, b), dirty: d, pos: c.P.pos(c.curPos), explicit: true, prefix: len(c.script), callee: key})
	}
	// havoc
	modified := false
	if _, nf := spec.Flags["noframe"]; nf {
		nmod := 0
		for _, cl := range spec.Clauses {
			if cl.Kind == "modifies" {
				nmod++
			}
		}
		if nmod == 0 {
			// no frame is declared and none is checked: the callee may change anything
			c.havocAll(st)
			modified = true
			c.note("call to " + key + " (no declared frame): every heap variable is havoc'd at the call")
		}
	}
	_, coarse := spec.Flags["noframe"]
	if _, af := spec.Flags["assumedframe"]; af {
		c.note("ASSUMED: the modifies clause of " + key + " is used at this call but is not checked against its body (flag assumedframe)")
	}
	for _, cl := range spec.Clauses {
		if cl.Kind != "modifies" {
			continue
		}
		for _, m := range cl.Mods {
			if c.havocTarget(env, st, m, coarse) {
				modified = true
			}
		}
	}
	if modified {
		if _, nd := spec.Flags["nodirty"]; !nd {
			du := ""
			for _, cl := range spec.Clauses {
				if cl.Kind == "dirty_unless" {
					du = c.evalBool(env, cl.E)
				}
			}
			if du != "" {
				st.dirty = c.define("dirty", "Bool", or(st.dirty, not(du)))
			} else {
				st.dirty = "true"
				if os.Getenv("GOVC_DEBUG") != "" {
					fmt.Fprintf(os.Stderr, "dirty: call %s at %s\n", key, c.P.pos(c.curPos))
				}
			}
		}
		nn := c.declare("now.c", "Int")
		c.assume(fmt.Sprintf("(>= %s %s)", nn, st.now), "")
		st.now = nn
	} else if _, al := spec.Flags["allocates"]; al {
		nn := c.declare("now.c", "Int")
		c.assume(fmt.Sprintf("(>= %s %s)", nn, st.now), "")
		st.now = nn
	}
	// results
	var res Val
	switch results.Len() {
	case 0:
		res = Val{K: VTuple}
	case 1:
		res = c.freshVal(results.At(0).Type(), "r."+lastPart(key))
	default:
		res = c.freshVal(results, "r."+lastPart(key))
	}
	post := &Env{c: c, vars: map[string]Val{}, cur: st, old: pre, tsubst: env.tsubst}
	for k, v := range env.vars {
		post.vars[k] = v
	}
	bindResults(post, spec, res, results)
	c.assumeAllocated(st, res)
	for _, cl := range spec.Clauses {
		switch cl.Kind {
		case "ensures":
			if cl.Name == "expanded" {
				// 256-way expanded facts are only handed to callers that ask for them (flag use_expanded)
				if top := c.DB.Funcs[strings.TrimSuffix(c.fn, "#lockfast")]; top == nil || top.Flags == nil {
					continue
				} else if _, ok := top.Flags["use_expanded"]; !ok {
					continue
				}
			}
			c.assumeUnder(st, c.evalBool(post, cl.E))
		case "assume":
			// definitional assumptions about uninterpreted spec functions hold in every state they mention
			c.assumeUnder(st, c.evalBool(env, cl.E))
		}
	}
	if len(pconds) > 0 {
		// the call returns only if no panic condition held. This narrows the path condition of the continuation; it must
		// not be asserted globally, or the panic exits recorded above (reach && pc) would become infeasible and every
		// obligation about them vacuous.
		st.reach = c.define("reach", "Bool", and(st.reach, not(or(pconds...))))
	}
	if _, tr := spec.Flags["trusted"]; tr {
		c.note("contract of " + key + " is assumed, not proved (trusted)")
	}
	return res
}

func lastPart(key string) string {
	if i := strings.LastIndex(key, "."); i >= 0 {
		return key[i+1:]
	}
	return key
}

func bindResults(env *Env, spec *FuncSpec, res Val, results *types.Tuple) {
	switch {
	case results.Len() == 1 && len(spec.Results) >= 1:
		env.vars[spec.Results[0]] = res
	case results.Len() > 1:
		for i, n := range spec.Results {
			if i < len(res.F) {
				env.vars[n] = res.F[i]
			}
		}
	}
	env.vars["result"] = res
}

// havocTarget applies one modifies target to the state; reports whether non-ghost memory changed.
func (c *Ctx) havocTarget(env *Env, st *State, m Expr, coarse bool) bool {
	locs := c.modTargets(env, m)
	real := false
	for _, t := range locs {
		hi := c.heaps[t.heap]
		if hi == nil {
			continue
		}
		cur := c.hget(st, t.heap)
		switch {
		case t.all || coarse:
			st.heap[t.heap] = c.declare("Hh."+t.heap, hi.sort)
		case t.pred != nil:
			nh := c.declare("Hh."+t.heap, hi.sort)
			c.assume(fmt.Sprintf("(forall ((q.r Int)) (! (=> (not %s) (= (select %s q.r) (select %s q.r))) :pattern ((select %s q.r))))", t.pred("q.r"), nh, cur, nh), "")
			st.heap[t.heap] = nh
		case hi.keys == 2 && t.key2 == "":
			arr := c.declare("hv", "(Array "+sortIdx+" "+hi.vsort+")")
			c.hset(st, t.heap, fmt.Sprintf("(store %s %s %s)", cur, t.key, arr))
		case hi.keys == 2:
			v := c.declare("hv", hi.vsort)
			c.hset(st, t.heap, fmt.Sprintf("(store %s %s (store (select %s %s) %s %s))", cur, t.key, cur, t.key, t.key2, v))
		default:
			v := c.declare("hv", hi.vsort)
			c.hset(st, t.heap, fmt.Sprintf("(store %s %s %s)", cur, t.key, v))
		}
		if !hi.ghost && worldStore(t.heap, t.key) && !c.isFreshRef(t.key) {
			real = true
		}
	}
	return real
}
