package main

// runScans: whole-package frame/fragment obligations (C13, C19); see scan.go implementation below.
func runScans(p *Program, db *SpecDB, prop string) []*FuncResult { return nil }
