package main

import (
	"fmt"
	"go/types"
	"sort"
	"strings"

	"golang.org/x/tools/go/ssa"
)

// Package-wide frame clauses, checked on the SSA of every function of the library packages
// (not only the functions under contract):
//
//	C13  "deterministic": the function stays inside the deterministic fragment of Go
//	     (no map iteration, select, goroutines, channel operations, pointer->integer conversion,
//	     no calls into time, math/rand, os, sync, runtime).
//	C19  "assigns no package state": no store reaches a package-level variable outside init,
//	     and no package-level variable has its address taken into a value that could be written through.
//
// Each function yields one obligation per clause; a violated clause names the instruction.

var bannedPkgs = map[string]bool{"time": true, "math/rand": true, "math/rand/v2": true, "os": true, "sync": true, "sync/atomic": true, "runtime": true, "crypto/rand": true, "os/signal": true, "syscall": true}

func scanObl(key, kind, name, text, pos string, ok bool, detail string) *Obligation {
	o := &Obligation{Name: name, Kind: "scan", Func: key, Text: text, Expect: "unsat", Pos: pos, Backend: "ssa-scan", Goal: "true"}
	if ok {
		o.Result = "unsat"
	} else {
		o.Result = "sat"
		o.Detail = detail
	}
	return o
}

func runScans(p *Program, db *SpecDB, prop string) []*FuncResult {
	if prop != "C13" && prop != "C19" {
		return nil
	}
	var out []*FuncResult
	fns := append([]*ssa.Function{}, p.AllFns...)
	// anonymous functions and init functions are not in AllFns' name index: add them
	seen := map[*ssa.Function]bool{}
	for _, f := range fns {
		seen[f] = true
	}
	var addAnon func(f *ssa.Function)
	addAnon = func(f *ssa.Function) {
		for _, a := range f.AnonFuncs {
			if !seen[a] {
				seen[a] = true
				fns = append(fns, a)
				addAnon(a)
			}
		}
	}
	for _, f := range append([]*ssa.Function{}, fns...) {
		addAnon(f)
	}
	for _, sp := range p.SPkgs {
		if f := sp.Func("init"); f != nil && !seen[f] {
			seen[f] = true
			fns = append(fns, f)
		}
	}
	sort.Slice(fns, func(i, j int) bool { return shortName(fns[i]) < shortName(fns[j]) })
	for _, fn := range fns {
		if fn.Origin() != nil {
			continue // generic instances share the origin's body
		}
		key := shortName(fn)
		r := &FuncResult{Key: key + "#scan", Kind: "scan", Tags: p.Tags}
		switch prop {
		case "C13":
			ok, detail, pos := scanDeterministic(p, fn)
			r.Obls = append(r.Obls, scanObl(key, "scan", key+"/deterministic", "function stays inside the deterministic fragment (no map range, select, go, channel ops, pointer->integer conversion, time/rand/os/sync calls)", pos, ok, detail))
		case "C19":
			ok, detail, pos := scanNoPackageState(p, fn)
			r.Obls = append(r.Obls, scanObl(key, "scan", key+"/assigns-no-package-state", "no store reaches a package-level variable (outside init) and no package-level variable escapes by address", pos, ok, detail))
		}
		out = append(out, r)
	}
	if prop == "C19" {
		// the package-level variables themselves: immutable kinds only
		r := &FuncResult{Key: "globals#scan", Kind: "scan", Tags: p.Tags}
		for _, sp := range p.SPkgs {
			var names []string
			for n, m := range sp.Members {
				if _, ok := m.(*ssa.Global); ok {
					names = append(names, n)
				}
			}
			sort.Strings(names)
			for _, n := range names {
				g := sp.Members[n].(*ssa.Global)
				if strings.HasPrefix(n, "init$") {
					continue
				}
				t := g.Type().(*types.Pointer).Elem()
				ok := immutableKind(t)
				r.Obls = append(r.Obls, scanObl("globals", "scan", fmt.Sprintf("global/%s.%s/immutable-kind", sp.Pkg.Name(), n), "package-level variable has a value kind that cannot be mutated in place (integer, bool, string, reflect.Type)", p.pos(g.Pos()), ok, "type "+t.String()))
			}
		}
		out = append(out, r)
	}
	return out
}

func immutableKind(t types.Type) bool {
	switch u := under(t).(type) {
	case *types.Basic:
		return true
	case *types.Interface:
		// reflect.Type values are immutable descriptors
		return strings.HasSuffix(t.String(), "reflect.Type")
	default:
		_ = u
		return false
	}
}

func scanDeterministic(p *Program, fn *ssa.Function) (bool, string, string) {
	for _, b := range fn.Blocks {
		for _, ins := range b.Instrs {
			bad := ""
			switch x := ins.(type) {
			case *ssa.Range:
				if _, ok := under(x.X.Type()).(*types.Map); ok {
					bad = "iteration over a map (order is randomised)"
				}
			case *ssa.Select:
				bad = "select statement"
			case *ssa.Go:
				bad = "goroutine start"
			case *ssa.Send:
				bad = "channel send"
			case *ssa.MakeChan:
				bad = "channel creation"
			case *ssa.UnOp:
				if x.Op.String() == "<-" {
					bad = "channel receive"
				}
			case *ssa.Convert:
				if classOf(x.X.Type()) == CUPtr {
					if b, ok := under(x.Type()).(*types.Basic); ok && b.Info()&types.IsInteger != 0 {
						bad = "conversion of a pointer to an integer (address-dependent value)"
					}
				}
			case ssa.CallInstruction:
				if c := x.Common().StaticCallee(); c != nil {
					if pk := fnPkg(c); pk != nil && bannedPkgs[pk.Path()] {
						bad = "call into package " + pk.Path() + " (" + c.Name() + ")"
					}
				}
			}
			if bad != "" {
				return false, bad, p.pos(ins.Pos())
			}
		}
	}
	return true, "", p.pos(fn.Pos())
}

// rootGlobal follows an address computation back to a package-level variable.
func rootGlobal(v ssa.Value, depth int) *ssa.Global {
	return rootGlobalV(v, map[ssa.Value]bool{})
}

func rootGlobalV(v ssa.Value, seen map[ssa.Value]bool) *ssa.Global {
	if seen[v] {
		return nil
	}
	seen[v] = true
	depth := 0
	_ = depth
	switch x := v.(type) {
	case *ssa.Global:
		return x
	case *ssa.FieldAddr:
		return rootGlobalV(x.X, seen)
	case *ssa.IndexAddr:
		return rootGlobalV(x.X, seen)
	case *ssa.ChangeType:
		return rootGlobalV(x.X, seen)
	case *ssa.Convert:
		return rootGlobalV(x.X, seen)
	case *ssa.Slice:
		return rootGlobalV(x.X, seen)
	case *ssa.Phi:
		for _, e := range x.Edges {
			if g := rootGlobalV(e, seen); g != nil {
				return g
			}
		}
	}
	return nil
}

func scanNoPackageState(p *Program, fn *ssa.Function) (bool, string, string) {
	isInit := fn.Name() == "init" || strings.HasPrefix(fn.Name(), "init#")
	for _, b := range fn.Blocks {
		for _, ins := range b.Instrs {
			bad := ""
			switch x := ins.(type) {
			case *ssa.Store:
				if g := rootGlobal(x.Addr, 0); g != nil && !isInit {
					bad = "store to package-level variable " + g.Name()
				}
				if g := rootGlobal(x.Val, 0); g != nil {
					bad = "address of package-level variable " + g.Name() + " is stored"
				}
			case *ssa.MapUpdate:
				if u, ok := x.Map.(*ssa.UnOp); ok {
					if g := rootGlobal(u.X, 0); g != nil && !isInit {
						bad = "update of package-level map " + g.Name()
					}
				}
			case ssa.CallInstruction:
				for _, a := range x.Common().Args {
					if g := rootGlobal(a, 0); g != nil {
						bad = "address of package-level variable " + g.Name() + " is passed to a call"
					}
				}
				if bi, ok := x.Common().Value.(*ssa.Builtin); ok && (bi.Name() == "append" || bi.Name() == "copy" || bi.Name() == "delete") && !isInit {
					if len(x.Common().Args) > 0 {
						if u, ok := x.Common().Args[0].(*ssa.UnOp); ok {
							if g := rootGlobal(u.X, 0); g != nil {
								bad = bi.Name() + " on package-level variable " + g.Name()
							}
						}
					}
				}
			case *ssa.MakeClosure:
				for _, bnd := range x.Bindings {
					if g := rootGlobal(bnd, 0); g != nil {
						bad = "address of package-level variable " + g.Name() + " is captured by a closure"
					}
				}
			case *ssa.Return:
				for _, r := range x.Results {
					if g := rootGlobal(r, 0); g != nil {
						bad = "address of package-level variable " + g.Name() + " is returned"
					}
				}
			}
			if bad != "" {
				return false, bad, p.pos(ins.Pos())
			}
		}
	}
	return true, "", p.pos(fn.Pos())
}
