package main

import (
	"fmt"
	"go/types"
	"sort"
	"strings"

	"golang.org/x/tools/go/ssa"
)

type FuncResult struct {
	Key     string
	Kind    string // func | lemma | scan
	Obls    []*Obligation
	Script  []string
	Notes   []string
	Inlined []string
	Err     string
	Trusted bool
	Gaps    []string
	Tags    string
}

// verifyFunc generates all obligations of one function under contract.
// useGaps: assume the 'known' gap preconditions (true) or leave them out (false, to confirm the gap is real).
func verifyFunc(p *Program, db *SpecDB, key string, useGaps bool) (res *FuncResult) {
	res = &FuncResult{Key: key, Kind: "func", Tags: p.Tags}
	spec := db.Funcs[key]
	fn := p.Funcs[key]
	if fn == nil {
		res.Err = "function not found in the program (renamed or removed?): " + key
		return
	}
	if spec == nil {
		res.Err = "no contract for " + key
		return
	}
	loopMods := map[string]map[string]*modInfo{}
	loopClean := map[string]bool{}
	for iter := 0; iter < 12; iter++ {
		c := newCtx(p, db, key, loopMods)
		c.loopClean = loopClean
		c.tolerant = true // code outside the supported subset must be unreachable (own obligation), e.g. strategies excluded by the precondition
		err := c.runTop(fn, spec, useGaps)
		if c.restart && err == nil {
			continue
		}
		res.Obls, res.Script = c.obls, c.script
		for n := range c.notes {
			res.Notes = append(res.Notes, n)
		}
		sort.Strings(res.Notes)
		for n := range c.inlined {
			res.Inlined = append(res.Inlined, n)
		}
		sort.Strings(res.Inlined)
		for g := range c.gaps {
			res.Gaps = append(res.Gaps, g)
		}
		sort.Strings(res.Gaps)
		if err != nil {
			res.Err = err.Error()
		}
		return
	}
	res.Err = "loop modification sets did not stabilise"
	return
}

func (c *Ctx) runTop(fn *ssa.Function, spec *FuncSpec, useGaps bool) (err error) {
	defer func() {
		if r := recover(); r != nil {
			switch e := r.(type) {
			case unsupportedErr:
				err = e
			case specErr:
				err = e
			case error:
				if strings.Contains(e.Error(), "contract") {
					err = e
					return
				}
				panic(r)
			default:
				panic(r)
			}
		}
	}()
	st := c.newState()
	fr := &Frame{fn: fn, key: c.fn, vals: map[ssa.Value]Val{}, spec: spec, top: true}
	if len(spec.Params) != len(fn.Params) {
		return specErr{fmt.Sprintf("contract of %s names %d parameters, function has %d", c.fn, len(spec.Params), len(fn.Params))}
	}
	for i, prm := range fn.Params {
		v := c.freshVal(prm.Type(), spec.Params[i])
		fr.vals[prm] = v
		c.assumeParam(st, v, prm.Type())
		if i == 0 && fn.Signature.Recv() != nil {
			if _, ok := under(prm.Type()).(*types.Pointer); ok {
				c.assume("(not (= "+v.T+" 0))", "receiver is non-nil")
			}
		}
	}
	c.st0 = st.clone()
	env := c.frameEnv(fr, st)
	env.old = c.st0
	for _, cl := range spec.Clauses {
		switch cl.Kind {
		case "requires":
			c.assume(c.evalBool(env, cl.E), "requires")
		case "assume":
			c.assume(c.evalBool(env, cl.E), "definitional assumption")
			c.note("definitional assumption in " + c.fn + ": " + cl.Text)
		case "known":
			if useGaps {
				c.assume(c.evalBool(env, cl.E), "known gap "+cl.Gap)
				c.gaps[cl.Gap] = true
			}
		}
	}
	// vacuity: the precondition must be satisfiable
	c.obls = append(c.obls, &Obligation{Name: c.fn + "/cover#pre", Kind: "cover", Func: c.fn, Prefix: len(c.script), Goal: "false", Expect: "sat", Text: "requires is satisfiable", Pos: c.P.pos(fn.Pos())})

	c.curPos = fn.Pos()
	exit, result := c.execBody(fr, st)
	if c.restart {
		return nil
	}
	// panics_if conditions in the pre-state
	preEnv := c.frameEnv(fr, c.st0)
	preEnv.old = c.st0
	var pconds []string
	var lockConds []string
	for _, cl := range spec.Clauses {
		switch cl.Kind {
		case "panics_if":
			pconds = append(pconds, c.evalBool(preEnv, cl.E))
		case "lockfast":
			lc := c.evalBool(preEnv, cl.E)
			pconds = append(pconds, lc)
			lockConds = append(lockConds, lc)
		}
	}
	_, mayPanic := spec.Flags["may_panic"]
	_, clean := spec.Flags["panic_clean"]
	for i, pe := range c.panics {
		stp := &State{reach: pe.reach}
		savePrefix := len(c.script)
		_ = savePrefix
		name := fmt.Sprintf("%s/panic#%d", c.fn, i+1)
		if !mayPanic {
			goal := or(pconds...)
			o := c.obligeAt(stp, "panics_only_if", name+"/only_if", goal, "a panic at "+pe.pos+" is only allowed under a panics_if/lockfast condition")
			o.Pos = pe.pos
		}
		for _, lc := range lockConds {
			o := c.obligeAt(stp, "lockfast", name+"/lockfast", implies(lc, not(pe.dirty)), "locked at entry: nothing is written before the panic at "+pe.pos)
			o.Pos = pe.pos
		}
		if clean {
			o := c.obligeAt(stp, "on_panic", name+"/clean", not(pe.dirty), "nothing is written before the panic at "+pe.pos)
			o.Pos = pe.pos
		}
		k := 0
		for _, cl := range spec.Clauses {
			if cl.Kind != "on_panic" {
				continue
			}
			k++
			goal := "false"
			if pe.st != nil {
				penv := c.frameEnv(fr, pe.st)
				penv.old = c.st0
				goal = c.evalBool(penv, cl.E)
			}
			for j, part := range splitAndDeep(goal) {
				o := c.obligeAt(stp, "on_panic", fmt.Sprintf("%s/on_panic#%d.%d", name, k, j+1), part, "at the panic at "+pe.pos+": "+cl.Text)
				o.Pos = pe.pos
			}
		}
	}
	if exit == nil {
		// no return instruction was reached by the symbolic execution (every path ended in a panic, in code
		// outside the subset, or was pruned): the postconditions would hold vacuously. Demand an explicit flag.
		if _, ok := spec.Flags["noreturn"]; !ok {
			hasEns := false
			for _, cl := range spec.Clauses {
				if cl.Kind == "ensures" {
					hasEns = true
				}
			}
			if hasEns {
				o := c.obligeAt(&State{reach: "true"}, "vacuity", c.fn+"/exit-not-reached", "false", "the normal exit is never reached by the symbolic execution, so the ensures clauses would be vacuous")
				o.Pos = c.P.pos(fn.Pos())
			}
		}
		return nil
	}
	c.curPos = fn.Pos()
	// ghost updates
	post := c.frameEnv(fr, exit)
	post.old = c.st0
	bindResults(post, spec, result, fn.Signature.Results())
	for _, cl := range spec.Clauses {
		if cl.Kind == "ghost" {
			c.ghostAssign(post, exit, cl)
		}
	}
	post.cur = exit
	// canary: the exit must be reachable under the assumptions (no contradiction)
	c.obls = append(c.obls, &Obligation{Name: c.fn + "/cover#exit", Kind: "cover", Func: c.fn, Prefix: len(c.script), Goal: not(exit.reach), Expect: "sat", Text: "normal exit is reachable (assumptions are not contradictory)", Pos: c.P.pos(fn.Pos())})
	// hints: exit-time facts proved first and then available to the remaining exit-time obligations
	hn := 0
	for _, cl := range spec.Clauses {
		if cl.Kind != "hint" {
			continue
		}
		hn++
		g := c.evalBool(post, cl.E)
		c.oblige(exit, "ensures", fmt.Sprintf("%s/hint#%d", c.fn, hn), g, "hint "+cl.Text)
		c.assumeUnder(exit, g)
	}
	n := 0
	for _, cl := range spec.Clauses {
		if cl.Kind != "ensures" {
			continue
		}
		n++
		name := fmt.Sprintf("%s/ensures#%d", c.fn, n)
		if cl.Name != "" {
			name = fmt.Sprintf("%s/ensures[%s]", c.fn, cl.Name)
		}
		// split top-level conjunctions
		parts := splitConj(cl.E)
		for j, pe := range parts {
			nm := name
			if len(parts) > 1 {
				nm = fmt.Sprintf("%s.%d", name, j+1)
			}
			c.oblige(exit, "ensures", nm, c.evalBool(post, pe), "ensures "+exprString(pe))
		}
	}
	for i, pc := range pconds {
		c.oblige(exit, "panics_if", fmt.Sprintf("%s/panics_if#%d", c.fn, i+1), not(pc), "normal return implies the panic condition did not hold")
	}
	if _, af := spec.Flags["assumedframe"]; af {
		c.note("ASSUMED: the modifies clause of " + c.fn + " is not checked against its body (flag assumedframe: it writes recycled slots of the trusted storage layer)")
	} else if _, nf := spec.Flags["noframe"]; !nf {
		c.frameCheck(fr, spec, exit)
	} else {
		c.frameCheckCoarse(fr, spec, exit)
	}
	inputs := c.replayInputs(fr, spec, result, exit)
	for _, o := range c.obls {
		if o.Kind == "ensures" || o.Kind == "panics_if" || strings.HasPrefix(o.Kind, "safe/") {
			o.Inputs, o.Sig = inputs, fn.Signature
		}
	}
	return nil
}

func (c *Ctx) obligeAt(st *State, kind, name, goal, text string) *Obligation {
	g := implies(st.reach, goal)
	o := &Obligation{Name: name, Kind: kind, Func: c.fn, Prefix: len(c.script), Goal: g, Text: text, Expect: "unsat", Pos: c.P.pos(c.curPos)}
	c.obls = append(c.obls, o)
	return o
}

func splitConj(e Expr) []Expr {
	if b, ok := e.(*EBin); ok && b.Op == "&&" {
		return append(splitConj(b.L), splitConj(b.R)...)
	}
	return []Expr{e}
}

func (c *Ctx) assumeParam(st *State, v Val, t types.Type) {
	switch v.K {
	case VScalar:
		if v.Typ != nil && classOf(v.Typ) == CRef {
			switch under(v.Typ).(type) {
			case *types.Pointer, *types.Map:
				c.assume(fmt.Sprintf("(and (< (birth %s) now0) (>= %s 0))", v.T, v.T), "parameters are allocated")
			}
		}
	case VSlice, VIface, VUPtr:
		c.assume(fmt.Sprintf("(and (< (birth %s) now0) (>= %s 0))", v.F[0].T, v.F[0].T), "parameters are allocated")
		if v.K == VIface {
			c.assume(fmt.Sprintf("(and (>= %s 0) (< (birth %s) now0) (=> (= %s 0) (= %s 0)))", v.F[1].T, v.F[1].T, v.F[0].T, v.F[1].T), "")
		}
	case VStruct, VTuple:
		for _, f := range v.F {
			c.assumeParam(st, f, f.Typ)
		}
	}
}

// ghostAssign executes "ghost lhs := rhs" on the exit state.
func (c *Ctx) ghostAssign(env *Env, st *State, cl *Clause) {
	env = env.with(st)
	var rhs Val
	constFill := false
	if call, ok := cl.RHS.(*ECall); ok {
		if id, ok := call.Fn.(*EIdent); ok && id.Name == "const" && len(call.Args) == 1 {
			constFill = true
			rhs = env.eval(call.Args[0])
		}
	}
	if !constFill {
		rhs = env.eval(cl.RHS)
	}
	switch l := cl.LHS.(type) {
	case *ESel:
		base, ok := env.structBase(l.X)
		if !ok {
			sfail("ghost assignment: %s is not an object", exprString(l.X))
		}
		g := env.ghostOf(base.typ, l.Name)
		if g == nil {
			sfail("ghost assignment to non-ghost field %s", l.Name)
		}
		name, vs, t := env.ghostHeap(g)
		if constFill {
			mt, ok := t.(*types.Map)
			if !ok {
				sfail("const() needs a ghost map")
			}
			rhs = env.typed(rhs, mt.Elem())
			c.hset(st, name, fmt.Sprintf("(store %s %s ((as const %s) %s))", c.hget(st, name), base.ref, vs, rhs.T))
			return
		}
		rhs = env.typed(rhs, t)
		c.hset(st, name, fmt.Sprintf("(store %s %s %s)", c.hget(st, name), base.ref, rhs.T))
	case *EIndex:
		if id, ok := l.X.(*EIdent); ok {
			if g := c.DB.Globals[id.Name]; g != nil {
				hn, t := env.globalHeap(g)
				rhs = env.typed(rhs, t.(*types.Map).Elem())
				c.hset(st, hn, fmt.Sprintf("(store %s %s %s)", c.hget(st, hn), refTerm(env.eval(l.I)), rhs.T))
				return
			}
		}
		sel, ok := l.X.(*ESel)
		if !ok {
			sfail("ghost assignment target must be x.g or x.g[k]")
		}
		base, ok := env.structBase(sel.X)
		if !ok {
			sfail("ghost assignment: %s is not an object", exprString(sel.X))
		}
		g := env.ghostOf(base.typ, sel.Name)
		if g == nil {
			sfail("ghost assignment to non-ghost field %s", sel.Name)
		}
		name, _, t := env.ghostHeap(g)
		mt, ok := t.(*types.Map)
		if !ok {
			sfail("ghost field %s is not a map", sel.Name)
		}
		k := env.typed(env.eval(l.I), mt.Key())
		rhs = env.typed(rhs, mt.Elem())
		cur := c.hget(st, name)
		c.hset(st, name, fmt.Sprintf("(store %s %s (store (select %s %s) %s %s))", cur, base.ref, cur, base.ref, c.mapKey(k), rhs.T))
	default:
		sfail("unsupported ghost assignment target")
	}
}

// frameCheck: everything outside the modifies clause keeps its pre-state value.
func (c *Ctx) frameCheck(fr *Frame, spec *FuncSpec, exit *State) {
	pre := c.frameEnv(fr, c.st0)
	pre.old = c.st0
	allowed := map[string][]modTarget{}
	for _, cl := range spec.Clauses {
		if cl.Kind != "modifies" {
			continue
		}
		for _, m := range cl.Mods {
			for _, t := range c.modTargets(pre, m) {
				allowed[t.heap] = append(allowed[t.heap], t)
			}
		}
	}
	var names []string
	for n := range exit.heap {
		names = append(names, n)
	}
	sort.Strings(names)
	for _, n := range names {
		t := exit.heap[n]
		if t == heap0Name(n) {
			continue
		}
		goal := c.frameFormula(n, allowed[n], t, heap0Name(n), "(< (birth q.r) now0)")
		if goal == "true" {
			continue
		}
		c.oblige(exit, "frame", fmt.Sprintf("%s/frame@%s", c.fn, n), goal, "only locations in the modifies clause change in "+n)
	}
}

// frameCheckCoarse (flag noframe): the modifies clause is checked at the granularity of heap components
// only: every component written on some path must be named by some modifies target. Call sites of such
// a function havoc the named components entirely. Without any modifies clause nothing is checked and
// call sites havoc every component.
func (c *Ctx) frameCheckCoarse(fr *Frame, spec *FuncSpec, exit *State) {
	pre := c.frameEnv(fr, c.st0)
	pre.old = c.st0
	allowed := map[string]bool{}
	n := 0
	for _, cl := range spec.Clauses {
		if cl.Kind != "modifies" {
			continue
		}
		n++
		for _, m := range cl.Mods {
			for _, t := range c.modTargets(pre, m) {
				allowed[t.heap] = true
			}
		}
	}
	if n == 0 {
		c.note("no frame is declared for " + c.fn + " (flag noframe): call sites assume that it may change anything")
		return
	}
	c.note("the frame of " + c.fn + " is checked per heap component, not per location (flag noframe): call sites havoc the named components entirely")
	var names []string
	for h := range exit.heap {
		names = append(names, h)
	}
	sort.Strings(names)
	for _, h := range names {
		if exit.heap[h] == heap0Name(h) {
			continue
		}
		o := &Obligation{Name: fmt.Sprintf("%s/frame-coarse@%s", c.fn, h), Kind: "frame", Func: c.fn, Text: "heap component " + h + " is written on some path, so some modifies target must name it", Expect: "unsat", Pos: c.P.pos(fr.fn.Pos()), Backend: "syntactic", Goal: "true", Prefix: 0}
		if allowed[h] {
			o.Result = "unsat"
			c.obls = append(c.obls, o)
			continue
		}
		// not named: only locations allocated by this call may change in this component
		goal := c.frameFormula(h, nil, exit.heap[h], heap0Name(h), "(< (birth q.r) now0)")
		if goal == "true" {
			continue
		}
		c.oblige(exit, "frame", fmt.Sprintf("%s/frame@%s", c.fn, h), goal, "no modifies target names "+h+": only locations allocated during the call change in it")
	}
}

// replayInputs lists the values a replay needs from a model.
func (c *Ctx) replayInputs(fr *Frame, spec *FuncSpec, result Val, exit *State) (out []ReplayInput) {
	defer func() {
		if r := recover(); r != nil {
			out = nil
		}
	}()
	for i, p := range fr.fn.Params {
		in := ReplayInput{Name: spec.Params[i], Val: fr.vals[p]}
		if pt, ok := under(p.Type()).(*types.Pointer); ok && flatStruct(pt.Elem()) {
			pre := c.loadStruct(c.st0, pt.Elem(), fr.vals[p].T)
			post := c.loadStruct(exit, pt.Elem(), fr.vals[p].T)
			in.Pre, in.Post = &pre, &post
		}
		out = append(out, in)
	}
	out = append(out, ReplayInput{Name: "$result", Val: result})
	return out
}

// flatStruct: a struct whose fields are integers, booleans, arrays of integers or flat structs.
func flatStruct(t types.Type) bool {
	if classOf(t) != CStruct {
		return false
	}
	s := under(t).(*types.Struct)
	for i := 0; i < s.NumFields(); i++ {
		ft := s.Field(i).Type()
		switch classOf(ft) {
		case CBool, CInt:
		case CSmallArr:
		case CArray:
			if classOf(under(ft).(*types.Array).Elem()) != CInt {
				return false
			}
		case CStruct:
			if !flatStruct(ft) {
				return false
			}
		default:
			return false
		}
	}
	return true
}

// verifyLemma: a pure SMT lemma over the specification vocabulary.
func verifyLemma(p *Program, db *SpecDB, name string) (res *FuncResult) {
	res = &FuncResult{Key: "lemma." + name, Kind: "lemma", Tags: p.Tags}
	ls := db.Lemmas[name]
	if ls == nil {
		res.Err = "no such lemma " + name
		return
	}
	c := newCtx(p, db, "lemma."+name, map[string]map[string]*modInfo{})
	defer func() {
		res.Obls, res.Script = c.obls, c.script
		for n := range c.notes {
			res.Notes = append(res.Notes, n)
		}
		if r := recover(); r != nil {
			switch e := r.(type) {
			case unsupportedErr:
				res.Err = e.Error()
			case specErr:
				res.Err = e.Error()
			default:
				panic(r)
			}
		}
	}()
	st := c.newState()
	c.st0 = st
	env := &Env{c: c, vars: map[string]Val{}, cur: st, old: st, pkg: ls.Pkg}
	for _, b := range ls.Params {
		t := env.resolveType(b.T)
		env.vars[b.Name] = c.freshVal(t, b.Name)
	}
	n := 0
	for _, cl := range ls.Clauses {
		switch cl.Kind {
		case "requires", "assume":
			c.assume(c.evalBool(env, cl.E), "lemma hypothesis")
		case "ensures":
			n++
			if n == 1 {
				c.obls = append(c.obls, &Obligation{Name: c.fn + "/cover#pre", Kind: "cover", Func: c.fn, Prefix: len(c.script), Goal: "false", Expect: "sat", Text: "hypotheses are satisfiable"})
			}
			c.oblige(st, "lemma", fmt.Sprintf("%s/ensures#%d", c.fn, n), c.evalBool(env, cl.E), "ensures "+cl.Text)
		}
	}
	return
}
