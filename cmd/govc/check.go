package main

import (
	"regexp"
	"encoding/json"
	"sync"

	"flag"
	"fmt"
	"golang.org/x/tools/go/ssa"
	"os"
	"path/filepath"
	"sort"
	"strconv"
	"strings"
	"time"
)

type knownFinding struct {
	Kind     string // known | fixed
	Property string
	Gap      string
	Obl      string
	Text     string
}

func loadKnown(path string) []knownFinding {
	data, err := os.ReadFile(path)
	if err != nil {
		return nil
	}
	var out []knownFinding
	for _, ln := range strings.Split(string(data), "\n") {
		ln = strings.TrimSpace(ln)
		if ln == "" || strings.HasPrefix(ln, "#") {
			continue
		}
		k := knownFinding{}
		switch {
		case strings.HasPrefix(ln, "known:"):
			k.Kind = "known"
		case strings.HasPrefix(ln, "fixed:"):
			k.Kind = "fixed"
		default:
			continue
		}
		rest := strings.TrimSpace(ln[6:])
		var words []string
		for _, w := range strings.Fields(rest) {
			switch {
			case strings.HasPrefix(w, "property="):
				k.Property = w[9:]
			case strings.HasPrefix(w, "gap="):
				k.Gap = w[4:]
			case strings.HasPrefix(w, "obligation="):
				k.Obl = w[11:]
			default:
				words = append(words, w)
			}
		}
		k.Text = strings.Join(words, " ")
		out = append(out, k)
	}
	return out
}

// builds lists the build-tag configurations a property is checked under.
func buildsFor(prop, tier string) []string {
	b := []string{"verif"}
	switch prop {
	case "C04", "C09", "C16", "C12":
		b = append(b, "verif,tiny")
	default:
		if tier == "thorough" {
			b = append(b, "verif,tiny")
		}
	}
	return b
}

type evidence struct {
	PropertyID  string                 `json:"property_id"`
	Tier        string                 `json:"tier"`
	Seed        int                    `json:"seed"`
	Level       string                 `json:"level"`
	Coverage    map[string]interface{} `json:"coverage"`
	Assumptions []string               `json:"assumptions"`
	WallS       float64                `json:"wall_s"`
	Violations  int                    `json:"violations"`
}

var globalAssumptions = []string{
	"go/types and go/ssa (x/tools v0.29.0) represent the compiled program; the SMT solvers (z3 4.8.12, z3 5.1.0, cvc5 1.0) are sound",
	"the SSA-to-SMT translation of govc (DESIGN.md section 3) is correct; mitigated by the must-fail corpus, covers and replays",
	"target amd64: int/uint/uintptr are 64-bit",
	"A1 resource bound: slice lengths and capacities stay below 2^31",
	"A4 callers: handles come from this world; user Filter.Matches and Listener methods are pure and do not mutate the world",
	"panic message arguments (fmt.Sprintf, reflect.Type.Name) are dropped; strings are uninterpreted",
	"paper step: the invariant rule composing per-function proofs into a for-all-histories statement (DESIGN.md 3.10) is not mechanised",
	"garbage collection, goroutines, stats bookkeeping and termination are not modelled",
}

func cmdCheck(args []string) {
	fs := flag.NewFlagSet("check", flag.ExitOnError)
	repo := fs.String("repo", "/repo", "repository")
	prop := fs.String("p", "", "property id")
	tier := fs.String("tier", "", "quick|thorough")
	verifDir := fs.String("verif", "/verif", "verif dir")
	jobs := fs.Int("j", 8, "parallel obligations")
	noEvidence := fs.Bool("no-evidence", false, "do not write the evidence file (selftest)")
	fs.Parse(args)
	if *tier == "" {
		*tier = os.Getenv("VERIF_TIER")
	}
	if *tier == "" {
		*tier = "quick"
	}
	seed := 1
	if s := os.Getenv("VERIF_SEED"); s != "" {
		if v, err := strconv.Atoi(s); err == nil {
			seed = v
		}
	}
	start := time.Now()
	timeout := 90
	if *tier == "thorough" {
		timeout = 240
	}
	id := *prop
	outDir := filepath.Join(*verifDir, "out", "vc", id)
	os.RemoveAll(outDir)
	replayDir := filepath.Join(*verifDir, "replays", id)
	os.RemoveAll(replayDir)
	known := loadKnown(filepath.Join(*verifDir, "known_findings.txt"))

	var all []*FuncResult
	var gapRuns []*FuncResult
	var fatal []string
	funcsUnder := map[string]bool{}
	skippedArity := map[string]bool{}
	trusted := map[string]bool{}
	notes := map[string]bool{}
	inlined := map[string]bool{}
	builds := buildsFor(id, *tier)
	var scanResults []*FuncResult
	for _, tags := range builds {
		p, err := loadProgram(*repo, tags)
		if err != nil {
			fatal = append(fatal, fmt.Sprintf("cannot load %s with tags %s: %v", *repo, tags, err))
			continue
		}
		db, err := loadSpecs(*repo, tags)
		if err != nil {
			fatal = append(fatal, "contract files do not parse: "+err.Error())
			continue
		}
		var keys []string
		for k, f := range db.Funcs {
			if hasProp(f.Props, id) {
				keys = append(keys, k)
			}
		}
		sort.Strings(keys)
		for _, k := range keys {
			f := db.Funcs[k]
			if f.IsIface {
				trusted["interface contract "+k+" (assumed for every implementation; implementations in this repository are proved against it where listed)"] = true
				continue
			}
			if _, tr := f.Flags["trusted"]; tr {
				trusted["contract of "+k+" is assumed, not proved"] = true
				continue
			}
			if _, skip := f.Flags["notiny"]; skip && strings.Contains(tags, "tiny") {
				continue
			}
			if a := genericArity(k); *tier != "thorough" && a > quickMaxArity {
				// the generic package is generated from one template per family: the quick tier checks arities 0..3, the thorough tier all
				skippedArity[k] = true
				continue
			}
			r := verifyFunc(p, db, k, true)
			all = append(all, r)
			funcsUnder[k] = true
			if len(r.Gaps) > 0 {
				gapRuns = append(gapRuns, verifyFunc(p, db, k, false))
			}
		}
		var lemmas []string
		for k, l := range db.Lemmas {
			if hasProp(l.Props, id) {
				lemmas = append(lemmas, k)
			}
		}
		sort.Strings(lemmas)
		for _, k := range lemmas {
			all = append(all, verifyLemma(p, db, k))
		}
		scanResults = append(scanResults, runScans(p, db, id)...)
		if id == "C09" {
			entries, _ := lockfastEntries(p, db)
			reach := map[string]bool{} // only functions that are themselves proved may be used as lockfast callees
			for _, f := range entries {
				reach[originKey(f)] = true
			}
			var todo []*ssa.Function
			for _, f := range entries {
				k := originKey(f)
				if f := os.Getenv("LF_ONLY"); f != "" && !strings.Contains(k, f) {
					continue
				}
				if why, ex := db.LockExempt[k]; ex {
					trusted["structural entry point "+k+" is exempt from the lock rule: "+why] = true
					continue
				}
				todo = append(todo, f)
				funcsUnder[k+"#lockfast"] = true
			}
			// VC generation of the entry points is independent: run it in parallel
			lres := make([]*FuncResult, len(todo))
			var wg sync.WaitGroup
			sem := make(chan struct{}, 12)
			for i, f := range todo {
				wg.Add(1)
				sem <- struct{}{}
				go func(i int, f *ssa.Function) {
					defer wg.Done()
					defer func() { <-sem }()
					lres[i] = verifyLockfast(p, db, f, reach)
				}(i, f)
			}
			wg.Wait()
			all = append(all, lres...)
		}
	}
	all = append(all, scanResults...)
	opt := solveOpts{outDir: outDir, seed: seed, timeoutS: timeout, jobs: *jobs, confirm: *tier == "thorough"}
	discharge(all, opt)
	gopt := opt
	gopt.outDir = filepath.Join(outDir, "nogap")
	discharge(gapRuns, gopt)

	// ----- verdicts -----
	type viol struct{ name, replay, suffix string }
	var viols []viol
	var knownLines []string
	nObl, nDis, nCover, nCoverOK := 0, 0, 0, 0
	byBackend := map[string]int{}
	var solverMs int64
	var samples []map[string]interface{}
	for _, r := range all {
		for n := range notesOf(r) {
			notes[n] = true
		}
		for _, n := range r.Inlined {
			inlined[n] = true
		}
		if r.Err != "" {
			name := r.Key + "/unverifiable"
			path := writeReplay(replayDir, id, name, map[string]interface{}{"obligation": name, "reason": r.Err, "tags": r.Tags})
			viols = append(viols, viol{name, path, " no-failing-input-found"})
			continue
		}
		for _, o := range r.Obls {
			solverMs += o.Ms
			if o.Expect == "sat" {
				nCover++
				if o.Result == "unsat" {
					path := writeReplay(replayDir, id, o.Name, map[string]interface{}{"obligation": o.Name, "reason": "vacuity: " + o.Text + " was refuted (contradictory assumptions)", "smt": o.SmtFile, "tags": r.Tags})
					viols = append(viols, viol{o.Name, path, " no-failing-input-found"})
				} else {
					nCoverOK++
				}
				continue
			}
			nObl++
			if os.Getenv("GOVC_SLOW") != "" && o.Ms > 3000 {
				fmt.Fprintf(os.Stderr, "slow: %6dms %-8s %-8s %s [%s]\n", o.Ms, o.Result, o.Backend, o.Name, r.Tags)
			}
			if o.Result == "unsat" {
				nDis++
				byBackend[strings.SplitN(o.Backend, "/", 2)[0]]++
				if len(samples) < 12 && (o.Kind == "ensures" || o.Kind == "lemma" || o.Kind == "inv" || o.Kind == "scan") {
					samples = append(samples, map[string]interface{}{"obligation": o.Name, "clause": o.Text, "result": o.Result, "backend": o.Backend, "ms": o.Ms, "build": r.Tags, "pos": o.Pos})
				}
				continue
			}
			if o.Kind == "scan" {
				path := writeReplay(replayDir, id, o.Name, map[string]interface{}{"obligation": o.Name, "clause": o.Text, "position": o.Pos, "finding": o.Detail, "build_tags": r.Tags,
					"replay_note": "a frame clause checked on the SSA of the current sources failed; the instruction is named under 'finding'"})
				viols = append(viols, viol{o.Name + " [" + r.Tags + "]", path, " no-failing-input-found"})
				continue
			}
			path, replayed := replayObligation(*repo, replayDir, id, r, o, opt)
			suffix := ""
			if !replayed {
				suffix = " no-failing-input-found"
			}
			viols = append(viols, viol{o.Name + " [" + r.Tags + "]", path, suffix})
		}
	}
	// known gaps: confirmed by the run without the gap precondition
	usedGaps := map[string]bool{}
	for _, r := range gapRuns {
		failing := []string{}
		for _, o := range r.Obls {
			if o.Expect == "unsat" && o.Result != "unsat" {
				failing = append(failing, o.Name)
			}
		}
		withGaps := verifyGapsOf(all, r.Key)
		for _, g := range withGaps {
			listed := false
			for _, k := range known {
				if k.Kind == "known" && k.Gap == g { // a gap is listed once, under the property it belongs to; it is reported wherever the function is checked
					listed = true
					if len(failing) > 0 && !usedGaps[g] {
						usedGaps[g] = true
						knownLines = append(knownLines, fmt.Sprintf("KNOWN-FINDING: property=%s gap=%s %s (obligations failing without the gap precondition: %s)", id, g, k.Text, strings.Join(failing, ", ")))
					}
				}
			}
			if !listed && len(failing) > 0 {
				name := r.Key + "/gap/" + g
				path := writeReplay(replayDir, id, name, map[string]interface{}{"obligation": name, "reason": "contract assumes gap precondition " + g + " which is not listed in known_findings.txt", "failing": failing})
				viols = append(viols, viol{name, path, " no-failing-input-found"})
			}
		}
	}
	for _, f := range fatal {
		name := "setup/" + smtName(f)
		if len(name) > 80 {
			name = name[:80]
		}
		path := writeReplay(replayDir, id, name, map[string]interface{}{"obligation": name, "reason": f})
		viols = append(viols, viol{name, path, " no-failing-input-found"})
	}
	if nObl == 0 && len(viols) == 0 {
		path := writeReplay(replayDir, id, "vacuity/no-obligations", map[string]interface{}{"reason": "no obligations were generated for " + id})
		viols = append(viols, viol{"vacuity/no-obligations", path, " no-failing-input-found"})
	}

	// ----- evidence -----
	var fl, tl, nl, il, gl []string
	for k := range funcsUnder {
		fl = append(fl, k)
	}
	for k := range trusted {
		tl = append(tl, k)
	}
	for k := range notes {
		nl = append(nl, k)
	}
	for k := range inlined {
		il = append(il, k)
	}
	for k := range usedGaps {
		gl = append(gl, k)
	}
	sort.Strings(fl)
	sort.Strings(tl)
	sort.Strings(nl)
	sort.Strings(il)
	sort.Strings(gl)
	if samples == nil {
		samples = []map[string]interface{}{}
	}
	tb := append([]string{"z3 4.8.12 / z3 5.1.0 / cvc5 1.0 (first definite answer of the race)", "go/ssa of x/tools v0.29.0", "govc SSA-to-SMT translation"}, tl...)
	ev := evidence{PropertyID: id, Tier: *tier, Seed: seed, Level: "proof", WallS: time.Since(start).Seconds(), Violations: len(viols)}
	ev.Coverage = map[string]interface{}{
		"obligations":              nObl,
		"discharged":               nDis,
		"checker_cmd":              fmt.Sprintf("bin/govc check -p %s -tier %s", id, *tier),
		"trusted_base":             tb,
		"functions_under_contract": fl,
		"functions_inlined":        il,
		"by_backend":               byBackend,
		"solver_time_s":            float64(solverMs) / 1000,
		"covers":                   map[string]int{"checked": nCover, "not_refuted": nCoverOK},
		"builds":                   builds,
		"known_gaps":               gl,
		"abstractions_used":        nl,
		"samples":                  samples,
		"explanation":              "obligations are generated from the SSA of /repo's current sources and the //@ contracts in verif_contracts*.go; each is one SMT query; discharged = unsat",
	}
	ev.Assumptions = append(append([]string{}, globalAssumptions...), tl...)
	seenA := map[string]bool{}
	for _, a := range ev.Assumptions {
		seenA[a] = true
	}
	for _, n := range nl {
		// notes of the run that name something taken on trust: assumed (trusted) contracts and frames, run-time checks assumed
		// to pass (nosafe), uninterpreted external functions, definitional assumptions about spec functions
		if (strings.Contains(n, "assumed") || strings.HasPrefix(n, "ASSUMED") || strings.Contains(n, "uninterpreted") || strings.HasPrefix(n, "definitional")) && !seenA[n] {
			seenA[n] = true
			ev.Assumptions = append(ev.Assumptions, n)
		}
	}
	if len(skippedArity) > 0 {
		ev.Coverage["not_run_in_this_tier"] = fmt.Sprintf("%d contracts of generated generic helpers with arity > %d (instances of the same templates) are only checked by the thorough tier", len(skippedArity), quickMaxArity)
	}
	if !*noEvidence {
		os.MkdirAll(filepath.Join(*verifDir, "evidence"), 0o755)
		data, _ := json.MarshalIndent(ev, "", " ")
		os.WriteFile(filepath.Join(*verifDir, "evidence", id+".json"), append(data, '\n'), 0o644)
	}
	for _, l := range knownLines {
		fmt.Println(l)
	}
	fmt.Printf("property %s tier %s: %d/%d obligations discharged over %d functions (%v), %d covers, %.1fs\n", id, *tier, nDis, nObl, len(fl), builds, nCover, time.Since(start).Seconds())
	if len(viols) > 0 {
		for _, v := range viols {
			fmt.Printf("VIOLATION property=%s replay=%s obligation=%s%s\n", id, v.replay, v.name, v.suffix)
		}
		os.Exit(1)
	}
	if os.Getenv("GOVC_KEEP_VC") == "" {
		// every query was discharged: the SMT files (gigabytes for the lock rule) are not needed; they are kept when a
		// violation is reported, because the replay records point to them
		os.RemoveAll(outDir)
	}
}

func notesOf(r *FuncResult) map[string]bool {
	m := map[string]bool{}
	for _, n := range r.Notes {
		m[n] = true
	}
	return m
}

func verifyGapsOf(all []*FuncResult, key string) []string {
	for _, r := range all {
		if r.Key == key && len(r.Gaps) > 0 {
			return r.Gaps
		}
	}
	return nil
}

const quickMaxArity = 3

var arityRe = regexp.MustCompile(`^generic\.(?:New)?(?:Filter|Query|Map)(\d+)`)

// genericArity: arity of a generated generic helper (Filter7[...].With -> 7), -1 for everything else.
func genericArity(key string) int {
	m := arityRe.FindStringSubmatch(key)
	if m == nil {
		return -1
	}
	n, _ := strconv.Atoi(m[1])
	return n
}

func hasProp(ps []string, id string) bool {
	for _, p := range ps {
		if p == id {
			return true
		}
	}
	return false
}

func writeReplay(dir, prop, name string, content map[string]interface{}) string {
	os.MkdirAll(dir, 0o755)
	path := filepath.Join(dir, smtName(name)+".json")
	content["property"] = prop
	data, _ := json.MarshalIndent(content, "", " ")
	os.WriteFile(path, append(data, '\n'), 0o644)
	return path
}
