package main

import (
	"strconv"
	"fmt"
	"go/constant"
	"go/token"
	"go/types"
	"math/big"
	"os"
	"sort"
	"strings"

	"golang.org/x/tools/go/ssa"
)

// Frame is one activation (the function under proof, or an inlined callee).
type Frame struct {
	fn        *ssa.Function
	key       string
	vals      map[ssa.Value]Val
	spec      *FuncSpec
	entry     *State // state at entry of this activation (old() for its loop invariants)
	names     map[string]Val
	loopIn    map[int]*State
	loopEntry map[*ssa.BasicBlock][2]string
	loopPos   map[int]int
	loopDirty map[int]string
	top       bool
	ins       map[*ssa.BasicBlock][]edgeIn
}

type edgeIn struct {
	pred *ssa.BasicBlock
	st   *State
}

const maxInlineDepth = 10

func (c *Ctx) val(fr *Frame, v ssa.Value) Val {
	switch x := v.(type) {
	case *ssa.Const:
		return c.constVal(x)
	case *ssa.Function:
		return Val{K: VFunc, Fn: shortName(x), Typ: x.Type()}
	case *ssa.Global:
		return c.globalVal(x)
	case *ssa.Builtin:
		return Val{K: VFunc, Fn: "builtin." + x.Name(), Typ: x.Type()}
	}
	if r, ok := fr.vals[v]; ok {
		return r
	}
	panic(unsupported(fmt.Sprintf("value %s (%T) used before definition in %s", v.Name(), v, fr.key)))
}

func (c *Ctx) globalVal(g *ssa.Global) Val {
	// package-level variables: their address is a static location keyed by the global's name.
	t := g.Type().(*types.Pointer).Elem()
	name := "G$" + g.Pkg.Pkg.Name() + "." + g.Name()
	if classOf(t) == CStruct {
		return sc(fmt.Sprintf("%d", 1000000+c.strID(name)), g.Type())
	}
	for _, lf := range leavesOf(t) {
		c.heapDecl(name+lf.suffix, lf.sort, 1, false)
	}
	return Val{K: VLoc, Typ: g.Type(), L: &Loc{heap: name, keys: []string{"0"}, typ: t}}
}

func (c *Ctx) constVal(k *ssa.Const) Val {
	t := k.Type()
	if k.Value == nil {
		if _, ok := t.(*types.TypeParam); ok {
			return sc("0", t)
		}
		return c.zeroVal(t)
	}
	switch classOf(t) {
	case CBool:
		if constant.BoolVal(k.Value) {
			return sc("true", t)
		}
		return sc("false", t)
	case CInt:
		w, _ := intInfo(t)
		bi, ok := new(big.Int).SetString(k.Value.ExactString(), 10)
		if !ok {
			v, _ := constant.Int64Val(constant.ToInt(k.Value))
			bi = big.NewInt(v)
		}
		return sc(bvLit(w, bi), t)
	case CFloat:
		return sc(fmt.Sprintf("%d", 2000000+c.strID(k.Value.ExactString())), t)
	}
	if k.Value.Kind() == constant.String {
		return sc(fmt.Sprintf("%d", c.strID(constant.StringVal(k.Value))), t)
	}
	panic(unsupported("constant " + k.String()))
}

// rpo computes a reverse postorder of the CFG ignoring back edges, in which every loop body
// precedes the blocks reached by leaving the loop.
func rpo(fn *ssa.Function) []*ssa.BasicBlock {
	// natural loops
	loops := map[*ssa.BasicBlock]map[*ssa.BasicBlock]bool{}
	for _, b := range fn.Blocks {
		for _, s := range b.Succs {
			if !s.Dominates(b) {
				continue
			}
			body := loops[s]
			if body == nil {
				body = map[*ssa.BasicBlock]bool{s: true}
				loops[s] = body
			}
			work := []*ssa.BasicBlock{b}
			for len(work) > 0 {
				n := work[len(work)-1]
				work = work[:len(work)-1]
				if body[n] {
					continue
				}
				body[n] = true
				work = append(work, n.Preds...)
			}
		}
	}
	exits := func(b, s *ssa.BasicBlock) int {
		n := 0
		for _, body := range loops {
			if body[b] && !body[s] {
				n++
			}
		}
		return n
	}
	seen := map[*ssa.BasicBlock]bool{}
	var post []*ssa.BasicBlock
	var dfs func(b *ssa.BasicBlock)
	dfs = func(b *ssa.BasicBlock) {
		seen[b] = true
		succs := append([]*ssa.BasicBlock{}, b.Succs...)
		sort.SliceStable(succs, func(i, j int) bool { return exits(b, succs[i]) > exits(b, succs[j]) })
		for _, s := range succs {
			if !seen[s] && !s.Dominates(b) {
				dfs(s)
			}
		}
		post = append(post, b)
	}
	dfs(fn.Blocks[0])
	for i, j := 0, len(post)-1; i < j; i, j = i+1, j-1 {
		post[i], post[j] = post[j], post[i]
	}
	return post
}

func isBackEdge(from, to *ssa.BasicBlock) bool { return to.Dominates(from) }

// loopOrdinal: 1-based index of header h among loop headers in block order.
func loopOrdinal(fn *ssa.Function, h *ssa.BasicBlock) int {
	n := 0
	for _, b := range fn.Blocks {
		isH := false
		for _, p := range b.Preds {
			if isBackEdge(p, b) {
				isH = true
			}
		}
		if isH {
			n++
		}
		if b == h {
			return n
		}
	}
	return 0
}

type retExit struct {
	st  *State
	res Val
}

// execBody symbolically executes a function body from state entry.
// It returns the merged state and result at normal returns (nil if no return is reachable).
func (c *Ctx) execBody(fr *Frame, entry *State) (*State, Val) {
	fn := fr.fn
	if len(fn.Blocks) == 0 {
		panic(unsupported("no body for " + fr.key))
	}
	fr.entry = entry.clone()
	fr.loopIn = map[int]*State{}
	fr.loopPos = map[int]int{}
	fr.loopDirty = map[int]string{}
	order := rpo(fn)
	fr.ins = map[*ssa.BasicBlock][]edgeIn{}
	var rets []retExit
	for _, b := range order {
		var st *State
		var entries []edgeIn
		isHeader := false
		for _, p := range b.Preds {
			if isBackEdge(p, b) {
				isHeader = true
			}
		}
		if b == fn.Blocks[0] {
			st = entry
			entries = []edgeIn{{nil, entry}}
		} else {
			entries = fr.ins[b]
			if len(entries) == 0 {
				continue // unreachable
			}
			var ss []*State
			for _, e := range entries {
				ss = append(ss, e.st)
			}
			st = c.mergeStates(ss)
		}
		if st.reach == "false" {
			continue
		}
		// phis
		phiVals := func(from []edgeIn) map[*ssa.Phi]Val {
			out := map[*ssa.Phi]Val{}
			for _, ins := range b.Instrs {
				phi, ok := ins.(*ssa.Phi)
				if !ok {
					break
				}
				var v Val
				for i := len(from) - 1; i >= 0; i-- {
					e := from[i]
					idx := predIndex(b, e.pred)
					ev := c.val(fr, phi.Edges[idx])
					if i == len(from)-1 {
						v = ev
					} else {
						v = iteVal(e.st.reach, ev, v)
					}
				}
				out[phi] = c.nameVal(v, phi.Name())
			}
			return out
		}
		if isHeader {
			st = c.loopHead(fr, b, st, phiVals(entries))
		} else {
			for phi, v := range phiVals(entries) {
				fr.vals[phi] = v
			}
		}
		// instructions
		ended := false
		for _, ins := range b.Instrs {
			if _, ok := ins.(*ssa.Phi); ok {
				continue
			}
			if p := ins.Pos(); p.IsValid() {
				c.curPos = p
			}
			switch x := ins.(type) {
			case *ssa.If:
				cv := c.val(fr, x.Cond).T
				t, f := st.clone(), st.clone()
				t.reach = c.define("reach", "Bool", and(st.reach, cv))
				f.reach = c.define("reach", "Bool", and(st.reach, not(cv)))
				if c.lfMode && strings.Contains(cv, "r.IsLocked") {
					// prune branches that are infeasible under "locked at entry" (everything behind the lock check)
					if !c.feasible(t.reach) {
						t.reach = "false"
					}
					if !c.feasible(f.reach) {
						f.reach = "false"
					}
				}
				c.flow(fr, b, b.Succs[0], t, ins)
				c.flow(fr, b, b.Succs[1], f, ins)
				ended = true
			case *ssa.Jump:
				c.flow(fr, b, b.Succs[0], st, ins)
				ended = true
			case *ssa.Return:
				var res Val
				switch len(x.Results) {
				case 0:
					res = Val{K: VTuple}
				case 1:
					res = c.val(fr, x.Results[0])
				default:
					res = Val{K: VTuple}
					for _, r := range x.Results {
						res.F = append(res.F, c.val(fr, r))
					}
				}
				rets = append(rets, retExit{st, res})
				ended = true
			case *ssa.Panic:
				c.panics = append(c.panics, &PanicExit{st: st.clone(), reach: st.reach, dirty: st.dirty, pos: c.P.pos(x.Pos()), explicit: true, prefix: len(c.script)})
				ended = true
			default:
				c.stepGuarded(fr, st, ins)
			}
			if ended {
				break
			}
			if st.reach == "false" {
				break
			}
		}
		_ = ended
	}
	if len(rets) == 0 {
		return nil, Val{}
	}
	if len(rets) == 1 {
		return rets[0].st, rets[0].res
	}
	var ss []*State
	for _, r := range rets {
		ss = append(ss, r.st)
	}
	res := rets[len(rets)-1].res
	for i := len(rets) - 2; i >= 0; i-- {
		res = iteVal(rets[i].st.reach, rets[i].res, res)
	}
	res = c.nameVal(res, "ret")
	return c.mergeStates(ss), res
}

// ins bookkeeping lives on the frame
func (c *Ctx) flow(fr *Frame, from, to *ssa.BasicBlock, st *State, at ssa.Instruction) {
	if st.reach == "false" {
		return
	}
	if isBackEdge(from, to) {
		c.backEdge(fr, from, to, st)
		return
	}
	if h := leavesLoop(from, to); fr.top && !c.lfMode && h != nil {
		n := 0
		for _, o := range c.obls {
			if o.Kind == "cover" {
				n++
			}
		}
		c.obls = append(c.obls, &Obligation{Name: fmt.Sprintf("%s/cover#loopexit%d", c.fn, n), Kind: "cover", Func: c.fn, Prefix: len(c.script), Goal: not(st.reach), Expect: "sat",
			Unless: fr.loopEntry[h][0], UnlessPrefix: atoi(fr.loopEntry[h][1]),
			Text: "the loop exit is reachable whenever the loop is (invariants and callee contracts are not contradictory)", Pos: c.P.pos(c.curPos)})
	}
	fr.ins[to] = append(fr.ins[to], edgeIn{from, st})
}

// leavesLoop: from is inside some natural loop that does not contain to.
func atoi(s string) int { n, _ := strconv.Atoi(s); return n }

func leavesLoop(from, to *ssa.BasicBlock) *ssa.BasicBlock {
	fn := from.Parent()
	for _, h := range fn.Blocks {
		isH := false
		for _, p := range h.Preds {
			if isBackEdge(p, h) {
				isH = true
			}
		}
		if !isH {
			continue
		}
		inFrom := h == from || (h.Dominates(from) && reachesWithout(from, h, map[*ssa.BasicBlock]bool{}))
		inTo := h == to || (h.Dominates(to) && reachesWithout(to, h, map[*ssa.BasicBlock]bool{}))
		if inFrom && !inTo {
			return h
		}
	}
	return nil
}

// reachesWithout: b can reach a back-edge source of header h (i.e. b lies in the natural loop of h).
func reachesWithout(b, h *ssa.BasicBlock, seen map[*ssa.BasicBlock]bool) bool {
	if seen[b] {
		return false
	}
	seen[b] = true
	for _, s := range b.Succs {
		if s == h {
			return true
		}
		if h.Dominates(s) && reachesWithout(s, h, seen) {
			return true
		}
	}
	return false
}

func predIndex(b, p *ssa.BasicBlock) int {
	for i, q := range b.Preds {
		if q == p {
			return i
		}
	}
	return 0
}

// nameVal introduces definitions for large terms of a value.
func (c *Ctx) nameVal(v Val, hint string) Val {
	if v.K == VLoc || v.K == VFunc {
		return v
	}
	terms := flat(v)
	for i, t := range terms {
		if len(t) >= 40 {
			terms[i] = c.define(hint, c.sortOfTerm(v, i), t)
		}
	}
	p := 0
	return rebuild(v, terms, &p)
}

// sortOfTerm: sort of the i-th flat term of v.
func (c *Ctx) sortOfTerm(v Val, i int) string {
	sorts := flatSorts(v)
	return sorts[i]
}

func flatSorts(v Val) []string {
	switch v.K {
	case VScalar:
		if v.Typ == nil {
			panic(unsupported("flatSorts of untyped scalar"))
		}
		return []string{scalarSort(v.Typ)}
	case VSlice:
		return []string{"Int", sortIdx, sortIdx}
	case VIface:
		return []string{"Int", "Int"}
	case VUPtr:
		return []string{"Int", sortIdx}
	}
	var out []string
	for _, f := range v.F {
		out = append(out, flatSorts(f)...)
	}
	return out
}

// ---------- loops ----------

func (c *Ctx) loopKey(fr *Frame, h *ssa.BasicBlock) string {
	return fmt.Sprintf("%s#%d", fr.key, loopOrdinal(fr.fn, h))
}

func (c *Ctx) loopHead(fr *Frame, h *ssa.BasicBlock, in *State, entryPhis map[*ssa.Phi]Val) *State {
	ord := loopOrdinal(fr.fn, h)
	key := c.loopKey(fr, h)
	fr.loopIn[ord] = in.clone()
	if fr.loopEntry == nil {
		fr.loopEntry = map[*ssa.BasicBlock][2]string{}
	}
	fr.loopEntry[h] = [2]string{in.reach, fmt.Sprint(len(c.script))}
	// 1. invariants on entry
	for phi, v := range entryPhis {
		fr.vals[phi] = v
	}
	invs := c.loopInvs(fr, h, ord)
	for i, inv := range invs {
		g := inv.eval(in)
		c.oblige(in, "inv", fmt.Sprintf("%s/loop%d/inv#%d@entry", fr.key, ord, i+1), g, inv.text)
	}
	// 2. havoc
	st := in.clone()
	mods := c.loopMods[key]
	var names []string
	for n := range mods {
		names = append(names, n)
	}
	sort.Strings(names)
	for _, n := range names {
		hi := c.heaps[n]
		if hi == nil {
			continue
		}
		before := c.hget(in, n)
		nh := c.declare("Hl."+n, hi.sort)
		st.heap[n] = nh
		allKnown := true
		for _, k := range mods[n].keys {
			for _, tok := range strings.FieldsFunc(k, func(r rune) bool { return r == '(' || r == ')' || r == ' ' }) {
				if (strings.HasPrefix(tok, "new.") || strings.Contains(tok, "!")) && !c.known[tok] {
					allKnown = false // key recorded at another inlining site of the same loop
				}
			}
		}
		if mi := mods[n]; !mi.whole && allKnown {
			// only cells with these (loop-invariant) keys are written in the loop body
			var ex []string
			for _, k := range mi.keys {
				if strings.HasPrefix(k, "@elems ") { // every element (and embedded sub-object) of one backing store
					f := strings.Fields(k)
					ex = append(ex, c.elemOfPred("q.r", f[1], f[2:]))
					continue
				}
				ex = append(ex, "(= q.r "+k+")")
			}
			c.assume(fmt.Sprintf("(forall ((q.r Int)) (! (=> (and (< (birth q.r) %s) (not %s)) (= (select %s q.r) (select %s q.r))) :pattern ((select %s q.r))))", in.now, or(ex...), nh, before, nh), "")
		}
	}
	fr.loopPos[ord] = len(c.script)
	if len(names) > 0 {
		nn := c.declare("now.l", "Int")
		c.assume(fmt.Sprintf("(>= %s %s)", nn, in.now), "")
		st.now = nn
		if c.lfMode || c.loopClean[key] {
			st.dirty = in.dirty // lockfast: checked at the back edge; otherwise: discovered on the previous pass
		} else {
			d := c.declare("dirty.l", "Bool")
			st.dirty = or(in.dirty, d)
		}
		fr.loopDirty[ord] = st.dirty
	}
	for _, ins := range h.Instrs {
		phi, ok := ins.(*ssa.Phi)
		if !ok {
			break
		}
		fr.vals[phi] = c.freshVal(phi.Type(), phi.Name()+"."+phi.Comment)
	}
	// 3. assume invariants for an arbitrary iteration
	for _, inv := range invs {
		c.assumeUnder(st, inv.eval(st))
	}
	return st
}

func (c *Ctx) backEdge(fr *Frame, from, h *ssa.BasicBlock, st *State) {
	ord := loopOrdinal(fr.fn, h)
	key := c.loopKey(fr, h)
	_ = h
	// adequacy of the havoc set: every heap variable written since the loop head must be havoc'd,
	// with a key frame only if all written keys are loop-invariant terms.
	mods := c.loopMods[key]
	headPos := fr.loopPos[ord]
	late := map[string]bool{}
	defs := map[string]string{}
	for _, l := range c.script[headPos:] {
		if strings.HasPrefix(l, "(declare-const ") {
			f := strings.Fields(l)
			late[f[1]] = true
		}
		if strings.HasPrefix(l, "(define-fun ") {
			// (define-fun name () sort body)
			f := strings.Fields(l)
			rest := l[len("(define-fun ")+len(f[1])+len(" () "):]
			srt := firstArg(rest)
			body := strings.TrimSpace(rest[len(srt):])
			defs[f[1]] = body[:len(body)-1]
		}
	}
	expand := func(t string) string {
		for i := 0; i < 6; i++ {
			changed := false
			var sb strings.Builder
			j := 0
			for j < len(t) {
				if strings.ContainsRune("() ", rune(t[j])) {
					sb.WriteByte(t[j])
					j++
					continue
				}
				k := j
				for k < len(t) && !strings.ContainsRune("() ", rune(t[k])) {
					k++
				}
				tok := t[j:k]
				if d, ok := defs[tok]; ok && len(d) < 400 {
					sb.WriteString(d)
					changed = true
				} else {
					if _, isDef := defs[tok]; isDef {
						late[tok] = true // too large to expand: treat as variant
					}
					sb.WriteString(tok)
				}
				j = k
			}
			t = sb.String()
			if !changed {
				break
			}
		}
		return t
	}
	need := map[string]*modInfo{}
	for _, w := range c.writes {
		if w.pos < headPos {
			continue
		}
		mi := need[w.heap]
		if mi == nil {
			mi = &modInfo{}
			need[w.heap] = mi
		}
		wkey := expand(w.key)
		if root := rootOfKey(wkey); c.fresh[root] && late[root] {
			continue // object allocated inside the loop body: not constrained by the frame (guarded by birth)
		}
		if wkey != "" && invariantTerm(wkey, late) {
			if !containsStr(mi.keys, wkey) {
				mi.keys = append(mi.keys, wkey)
			}
		} else if p, ok := elemKeyPattern(wkey, late); ok {
			if !containsStr(mi.keys, p) {
				mi.keys = append(mi.keys, p)
			}
		} else {
			mi.whole = true
		}
	}
	for n, t := range st.heap {
		if need[n] == nil && c.hget(fr.loopIn[ord], n) != t && (mods == nil || mods[n] == nil) {
			need[n] = &modInfo{whole: true}
		}
	}
	for n, mi := range need {
		old := mods[n]
		ok := old != nil && (old.whole || (!mi.whole && subsetStr(mi.keys, old.keys)))
		if !ok {
			if c.loopMods[key] == nil {
				c.loopMods[key] = map[string]*modInfo{}
			}
			if old != nil && !mi.whole && !old.whole {
				for _, k := range old.keys {
					if !containsStr(mi.keys, k) {
						mi.keys = append(mi.keys, k)
					}
				}
			}
			c.loopMods[key][n] = mi
			c.restart = true
			if os.Getenv("GOVC_DEBUG") != "" {
				fmt.Fprintf(os.Stderr, "loopmod %s %s whole=%v keys=%v\n", key, n, mi.whole, mi.keys)
			}
		}
	}
	if !c.lfMode && !c.loopClean[key] && st.dirty == fr.loopDirty[ord] {
		// no store of the body touched world state: remember and redo the pass with an unchanged dirty flag
		c.loopClean[key] = true
		c.restart = true
	}
	if c.restart {
		return
	}
	if c.lfMode {
		c.oblige(st, "lockfast", fmt.Sprintf("%s/loop%d/clean@back.b%d", fr.key, ord, from.Index), implies(st.dirty, fr.loopIn[ord].dirty), "locked at entry: the loop body writes no world state")
	}
	// bind phis to back-edge values, check invariants, restore
	saved := map[*ssa.Phi]Val{}
	idx := predIndex(h, from)
	newVals := map[*ssa.Phi]Val{}
	for _, ins := range h.Instrs {
		phi, ok := ins.(*ssa.Phi)
		if !ok {
			break
		}
		saved[phi] = fr.vals[phi]
		newVals[phi] = c.val(fr, phi.Edges[idx])
	}
	for phi, v := range newVals {
		fr.vals[phi] = v
	}
	invs := c.loopInvs(fr, h, ord)
	for i, inv := range invs {
		g := inv.eval(st)
		c.oblige(st, "inv", fmt.Sprintf("%s/loop%d/inv#%d@back.b%d", fr.key, ord, i+1, from.Index), g, inv.text)
	}
	for phi, v := range saved {
		fr.vals[phi] = v
	}
}

type invItem struct {
	text string
	eval func(st *State) string
}

// loopInvs: declared invariants, the automatic range-index bound, and the frame of loopmod clauses.
func (c *Ctx) loopInvs(fr *Frame, h *ssa.BasicBlock, ord int) []invItem {
	var out []invItem
	// automatic: range-index variable stays within -1 .. len-1
	for _, ins := range h.Instrs {
		phi, ok := ins.(*ssa.Phi)
		if !ok {
			break
		}
		if phi.Comment != "rangeindex" {
			continue
		}
		var lenV ssa.Value
		for _, i2 := range h.Instrs {
			if b, ok := i2.(*ssa.BinOp); ok && b.Op == token.LSS {
				if inc, ok := b.X.(*ssa.BinOp); ok && inc.X == phi {
					lenV = b.Y
				}
			}
		}
		p, lv := phi, lenV
		out = append(out, invItem{"range index within bounds (automatic)", func(st *State) string {
			v := fr.vals[p]
			g := "(bvsle #xffffffffffffffff " + v.T + ")"
			if lv != nil {
				l := c.val(fr, lv)
				g = fmt.Sprintf("(and %s (or (= %s #xffffffffffffffff) (bvslt %s %s)) (bvslt %s #x000000007fffffff))", g, v.T, v.T, l.T, v.T)
			}
			return g
		}})
	}
	var mods []*Clause
	if fs := c.DB.Funcs[fr.key]; fs != nil {
		for _, cl := range fs.Loops[ord] {
			switch cl.Kind {
			case "inv":
				cl := cl
				out = append(out, invItem{cl.Text, func(st *State) string {
					env := c.frameEnv(fr, st)
					env.loopIn = fr.loopIn[ord]
					env.header = h
					return c.evalBool(env, cl.E)
				}})
			case "loopmod":
				mods = append(mods, cl)
			}
		}
	}
	if len(mods) > 0 {
		key := c.loopKey(fr, h)
		var names []string
		for n := range c.loopMods[key] {
			names = append(names, n)
		}
		sort.Strings(names)
		for _, n := range names {
			n := n
			out = append(out, invItem{"loop frame of " + n, func(st *State) string {
				env := c.frameEnv(fr, st)
				env.loopIn = fr.loopIn[ord]
				env.header = h
				var ts []modTarget
				for _, cl := range mods {
					for _, m := range cl.Mods {
						for _, t := range c.modTargets(env, m) {
							if t.heap == n {
								ts = append(ts, t)
							}
						}
					}
				}
				return c.frameFormula(n, ts, c.hget(st, n), c.hget(fr.loopIn[ord], n), "")
			}})
		}
	}
	return out
}

// frameFormula: heap variable n agrees between terms now and before outside the targets.
func (c *Ctx) frameFormula(n string, ts []modTarget, now, before, guard string) string {
	hi := c.heaps[n]
	var ex, ex2 []string
	for _, a := range ts {
		switch {
		case a.all:
			return "true"
		case a.pred != nil:
			ex = append(ex, a.pred("q.r"))
		case a.key2 != "":
			ex2 = append(ex2, fmt.Sprintf("(and (= q.r %s) (= q.i %s))", a.key, a.key2))
		default:
			ex = append(ex, "(= q.r "+a.key+")")
		}
	}
	if now == before {
		return "true"
	}
	g := "true"
	if guard != "" {
		g = guard
	}
	if hi.keys == 2 {
		return fmt.Sprintf("(forall ((q.r Int) (q.i %s)) (=> (and %s (not %s) (not %s)) (= (select (select %s q.r) q.i) (select (select %s q.r) q.i))))",
			sortIdx, g, or(ex...), or(ex2...), now, before)
	}
	return fmt.Sprintf("(forall ((q.r Int)) (! (=> (and %s (not %s)) (= (select %s q.r) (select %s q.r))) :pattern ((select %s q.r))))", g, or(ex...), now, before, now)
}

// ---------- instructions ----------

func (c *Ctx) idx64(v Val) string {
	if v.Typ == nil {
		return v.T
	}
	return convInt(v.T, v.Typ, types.Typ[types.Int])
}

func (c *Ctx) safe(st *State, fr *Frame, kind, goal, what string) {
	goal = foldLit(goal)
	if goal == "true" {
		return
	}
	if c.facts[goal] || c.facts[st.reach+"|"+goal] {
		return
	}
	c.facts[st.reach+"|"+goal] = true
	if fr != nil {
		if fs := c.DB.Funcs[c.fn]; fs != nil {
			if _, ok := fs.Flags["nosafe"]; ok {
				c.assumeUnder(st, goal)
				c.note("implicit run-time checks of " + c.fn + " are assumed to pass (flag nosafe)")
				return
			}
		}
	}
	n := 0
	for _, o := range c.obls {
		if o.Kind == kind {
			n++
		}
	}
	c.oblige(st, kind, fmt.Sprintf("%s/%s#%d", c.fn, kind, n+1), goal, what)
}

func (c *Ctx) refOf(v Val) string {
	if v.K != VScalar {
		panic(unsupported("pointer to non-struct used as object reference"))
	}
	return v.T
}

func (c *Ctx) step(fr *Frame, st *State, ins ssa.Instruction) {
	switch x := ins.(type) {
	case *ssa.DebugRef:
		if !x.IsAddr {
			if id, ok := x.Expr.(interface{ String() string }); ok {
				_ = id
			}
		}
		return
	case *ssa.Alloc:
		fr.vals[x] = c.doAlloc(st, x.Type().(*types.Pointer).Elem(), x.Type(), x.Comment)
	case *ssa.FieldAddr:
		base := c.val(fr, x.X)
		if pt0 := under(x.X.Type()).(*types.Pointer).Elem(); isForeignStruct(pt0) && base.K == VLoc {
			s0 := under(pt0).(*types.Struct)
			f0 := s0.Field(x.Field)
			fr.vals[x] = Val{K: VLoc, Typ: x.Type(), L: &Loc{obase: base.L, ofield: typeShort(pt0) + "." + f0.Name(), otyp: f0.Type(), typ: f0.Type()}}
			return
		}
		ref := c.refOf(base)
		c.safe(st, fr, "safe/nil", "(not (= "+ref+" 0))", "nil dereference in field access")
		pt := under(x.X.Type()).(*types.Pointer).Elem()
		s := under(pt).(*types.Struct)
		f := s.Field(x.Field)
		if classOf(f.Type()) == CStruct {
			fr.vals[x] = sc(c.subRef(pt, f.Name(), ref), x.Type())
		} else {
			fr.vals[x] = Val{K: VLoc, Typ: x.Type(), L: c.fieldLoc(pt, f, ref)}
		}
	case *ssa.Field:
		base := c.val(fr, x.X)
		if isForeignStruct(x.X.Type()) && base.K == VScalar {
			f0 := under(x.X.Type()).(*types.Struct).Field(x.Field)
			fr.vals[x] = c.opaqueField(base, typeShort(x.X.Type())+"."+f0.Name(), f0.Type())
			return
		}
		if base.K != VStruct {
			panic(unsupported("Field of non-struct value"))
		}
		fr.vals[x] = base.F[x.Field]
	case *ssa.IndexAddr:
		fr.vals[x] = c.indexAddr(fr, st, x)
	case *ssa.Index:
		base := c.val(fr, x.X)
		arr, ok := under(x.X.Type()).(*types.Array)
		if !ok || (base.K != VScalar && base.K != VArr) {
			panic(unsupported("Index on " + x.X.Type().String()))
		}
		i := c.idx64(c.val(fr, x.Index))
		c.safe(st, fr, "safe/idx", fmt.Sprintf("(bvult %s %s)", i, bvInt(64, arr.Len())), "array index in range")
		if base.K == VArr {
			fr.vals[x] = arrSelect(base, i)
		} else {
			fr.vals[x] = sc("(select "+base.T+" "+i+")", x.Type())
		}
	case *ssa.UnOp:
		fr.vals[x] = c.unop(fr, st, x)
	case *ssa.Store:
		c.doStore(fr, st, c.val(fr, x.Addr), c.val(fr, x.Val), x.Addr.Type())
	case *ssa.BinOp:
		fr.vals[x] = c.nameVal(c.binop(fr, st, x.Op, c.val(fr, x.X), c.val(fr, x.Y), x.X.Type(), x.Y.Type(), x.Type()), x.Name())
	case *ssa.Convert:
		fr.vals[x] = c.convert(fr, st, c.val(fr, x.X), x.X.Type(), x.Type())
	case *ssa.ChangeType:
		v := c.val(fr, x.X)
		v.Typ = x.Type()
		fr.vals[x] = v
	case *ssa.MakeInterface:
		fr.vals[x] = c.makeIface(st, c.val(fr, x.X), x.X.Type(), x.Type())
	case *ssa.ChangeInterface:
		v := c.val(fr, x.X)
		v.Typ = x.Type()
		fr.vals[x] = v
	case *ssa.TypeAssert:
		fr.vals[x] = c.typeAssert(fr, st, x)
	case *ssa.Extract:
		fr.vals[x] = c.val(fr, x.Tuple).F[x.Index]
	case *ssa.Slice:
		fr.vals[x] = c.doSlice(fr, st, x)
	case *ssa.MakeSlice:
		fr.vals[x] = c.makeSlice(fr, st, x)
	case *ssa.MakeMap:
		fr.vals[x] = c.makeMap(st, x.Type())
	case *ssa.Lookup:
		fr.vals[x] = c.lookup(fr, st, x)
	case *ssa.MapUpdate:
		c.mapUpdate(fr, st, x)
	case *ssa.MakeClosure:
		f := x.Fn.(*ssa.Function)
		name := shortName(f)
		if strings.HasSuffix(f.Name(), "$bound") && len(x.Bindings) == 1 {
			recv := c.val(fr, x.Bindings[0])
			// name of the underlying method
			name = strings.TrimSuffix(name, "$bound")
			fr.vals[x] = Val{K: VFunc, Fn: name, Typ: x.Type(), Recv: &recv}
			return
		}
		fr.vals[x] = Val{K: VFunc, Fn: name, Typ: x.Type()}
	case *ssa.Call:
		c.call(fr, st, x)
	case *ssa.SliceToArrayPointer:
		panic(unsupported("slice to array pointer conversion"))
	default:
		panic(unsupported(fmt.Sprintf("instruction %T (%s)", ins, ins)))
	}
}

func (c *Ctx) doAlloc(st *State, t types.Type, pt types.Type, hint string) Val {
	if hint == "" {
		hint = "a"
	}
	ref := c.alloc(st, "new."+hint)
	switch classOf(t) {
	case CStruct:
		c.storeStruct(st, t, ref, c.zeroVal(t))
		return sc(ref, pt)
	case CArray:
		arr := under(t).(*types.Array)
		c.initBacking(st, arr.Elem(), ref, arr.Len())
		return sc(ref, pt)
	}
	if _, ok := under(t).(*types.Array); ok {
		arr := under(t).(*types.Array)
		c.initBacking(st, arr.Elem(), ref, arr.Len())
		return sc(ref, pt)
	}
	l := c.elemLoc(t, ref, bvInt(64, 0))
	c.storeLoc(st, l, c.zeroVal(t))
	return Val{K: VLoc, Typ: pt, L: l}
}

func classOfArrayType(t types.Type) bool { _, ok := under(t).(*types.Array); return ok }

// initBacking zero-initialises a fresh backing store of n elements (n<0: unknown length, all cells).
func (c *Ctx) initBacking(st *State, et types.Type, data string, n int64) {
	if classOf(et) == CStruct {
		if n >= 0 && n <= 4 {
			for i := int64(0); i < n; i++ {
				c.storeStruct(st, et, c.elemRef(data, bvInt(64, i)), c.zeroVal(et))
			}
			return
		}
		c.zeroStructElems(st, et, data, func(r string) string { return c.elemOfPred(r, data, nil) }, func(r string) string { return r })
		return
	}
	name := elemHeap(et)
	z := flat(c.zeroVal(et))
	for i, lf := range leavesOf(et) {
		h := c.heapDecl(name+lf.suffix, lf.sort, 2, false)
		cur := c.hget(st, name+lf.suffix)
		c.hset(st, name+lf.suffix, fmt.Sprintf("(store %s %s ((as const (Array %s %s)) %s))", cur, data, sortIdx, h.vsort, z[i]))
	}
}

// zeroStructElems: every field heap of struct type et gets zero at the references selected by sel.
func (c *Ctx) zeroStructElems(st *State, et types.Type, data string, sel func(r string) string, wrap func(r string) string) {
	s := under(et).(*types.Struct)
	for i := 0; i < s.NumFields(); i++ {
		f := s.Field(i)
		if classOf(f.Type()) == CStruct {
			fn := c.subRef(et, f.Name(), "q.x")
			fn = fn[1:strings.Index(fn, " ")]
			c.zeroStructElems(st, f.Type(), data, func(r string) string { return sel("(inv."+fn+" "+r+")") + "" }, wrap)
			c.note("zero-initialisation of nested struct elements uses sub-object inverse functions")
			continue
		}
		l := c.fieldLoc(et, f, "0")
		z := flat(c.zeroVal(f.Type()))
		for j, lf := range leavesOf(f.Type()) {
			name := l.heap + lf.suffix
			cur := c.hget(st, name)
			nh := c.declare("Hz."+name, c.heaps[name].sort)
			c.assume(fmt.Sprintf("(forall ((q.r Int)) (! (= (select %s q.r) (ite %s %s (select %s q.r))) :pattern ((select %s q.r))))", nh, sel("q.r"), z[j], cur, nh), "")
			st.heap[name] = nh
		}
	}
}

func (c *Ctx) indexAddr(fr *Frame, st *State, x *ssa.IndexAddr) Val {
	base := c.val(fr, x.X)
	i := c.idx64(c.val(fr, x.Index))
	switch bt := under(x.X.Type()).(type) {
	case *types.Slice:
		c.safe(st, fr, "safe/idx", fmt.Sprintf("(and (bvsle #x0000000000000000 %s) (bvslt %s %s))", i, i, base.F[1].T), "slice index in range")
		et := bt.Elem()
		if classOf(et) == CStruct {
			return sc(c.elemRef(base.F[0].T, i), x.Type())
		}
		return Val{K: VLoc, Typ: x.Type(), L: c.elemLoc(et, base.F[0].T, i)}
	case *types.Pointer:
		arr := under(bt.Elem()).(*types.Array)
		c.safe(st, fr, "safe/idx", fmt.Sprintf("(bvult %s %s)", i, bvInt(64, arr.Len())), "array index in range")
		if base.K == VLoc {
			l := *base.L
			if l.idx != "" {
				panic(unsupported("nested array index"))
			}
			l.idx = i
			l.et = arr.Elem()
			return Val{K: VLoc, Typ: x.Type(), L: &l}
		}
		et := arr.Elem()
		if classOf(et) == CStruct {
			return sc(c.elemRef(base.T, i), x.Type())
		}
		return Val{K: VLoc, Typ: x.Type(), L: c.elemLoc(et, base.T, i)}
	}
	panic(unsupported("IndexAddr on " + x.X.Type().String()))
}

func (c *Ctx) unop(fr *Frame, st *State, x *ssa.UnOp) Val {
	v := c.val(fr, x.X)
	switch x.Op {
	case token.MUL:
		return c.nameVal(c.deref(fr, st, v, x.X.Type()), x.Name())
	case token.NOT:
		return sc(not(v.T), x.Type())
	case token.SUB:
		return sc("(bvneg "+v.T+")", x.Type())
	case token.XOR:
		return sc("(bvnot "+v.T+")", x.Type())
	}
	panic(unsupported("unary " + x.Op.String()))
}

func (c *Ctx) deref(fr *Frame, st *State, v Val, ptrType types.Type) Val {
	if v.K == VLoc {
		return c.loadLoc(st, v.L)
	}
	et := under(ptrType).(*types.Pointer).Elem()
	ref := c.refOf(v)
	c.safe(st, fr, "safe/nil", "(not (= "+ref+" 0))", "nil dereference")
	switch classOf(et) {
	case CStruct:
		return c.loadStruct(st, et, ref)
	case CArray:
		arr := under(et).(*types.Array)
		name := elemHeap(arr.Elem())
		c.elemLoc(arr.Elem(), ref, bvInt(64, 0))
		return sc("(select "+c.hget(st, name)+" "+ref+")", et)
	case CSmallArr:
		arr := under(et).(*types.Array)
		out := Val{K: VArr, Typ: et}
		for i := int64(0); i < arr.Len(); i++ {
			out.F = append(out.F, c.loadLoc(st, c.elemLoc(arr.Elem(), ref, bvInt(64, i))))
		}
		return out
	}
	if _, ok := under(et).(*types.TypeParam); ok {
		return sc("(deref.tp "+ref+")", et)
	}
	panic(unsupported("deref of pointer to " + et.String()))
}

func (c *Ctx) doStore(fr *Frame, st *State, addr, v Val, ptrType types.Type) {
	if addr.K == VLoc {
		if v.K == VFunc {
			v = sc(fmt.Sprintf("%d", 3000000+c.strID(v.Fn)), addr.L.typ)
		}
		c.storeLoc(st, addr.L, v)
		return
	}
	et := under(ptrType).(*types.Pointer).Elem()
	ref := c.refOf(addr)
	c.safe(st, fr, "safe/nil", "(not (= "+ref+" 0))", "nil dereference in store")
	switch classOf(et) {
	case CStruct:
		c.storeStruct(st, et, ref, v)
		return
	case CArray:
		arr := under(et).(*types.Array)
		name := elemHeap(arr.Elem())
		c.elemLoc(arr.Elem(), ref, bvInt(64, 0))
		c.hset(st, name, fmt.Sprintf("(store %s %s %s)", c.hget(st, name), ref, v.T))
		c.markDirty(st, ref)
		return
	case CSmallArr:
		arr := under(et).(*types.Array)
		for i := int64(0); i < arr.Len(); i++ {
			c.storeLoc(st, c.elemLoc(arr.Elem(), ref, bvInt(64, i)), v.F[i])
		}
		return
	}
	panic(unsupported("store through pointer to " + et.String()))
}

func (c *Ctx) binop(fr *Frame, st *State, op token.Token, a, b Val, at, bt, rt types.Type) Val {
	switch op {
	case token.EQL, token.NEQ:
		eq := ""
		isNilIface := func(v Val) bool { return v.K == VIface && v.F[0].T == "0" && v.F[1].T == "0" }
		switch {
		case isNilIface(a) && b.K == VIface:
			eq = "(= " + b.F[0].T + " 0)" // an interface is nil iff its dynamic type is nil
		case isNilIface(b) && a.K == VIface:
			eq = "(= " + a.F[0].T + " 0)"
		default:
			eq = c.eqVal(a, b)
		}
		if op == token.NEQ {
			eq = not(eq)
		}
		return sc(eq, rt)
	}
	cl := classOf(at)
	if cl == CBool {
		switch op {
		case token.AND, token.LAND:
			return sc(and(a.T, b.T), rt)
		case token.OR, token.LOR:
			return sc(or(a.T, b.T), rt)
		}
	}
	if cl != CInt {
		if cl == CRef || cl == CFloat { // strings/floats: uninterpreted
			c.note("string/float arithmetic is uninterpreted")
			fn := "ext$binop_" + smtName(op.String())
			return sc(c.ufApp(fn, []string{a.T, b.T}, []string{"Int", "Int"}, scalarSort(rt)), rt)
		}
		panic(unsupported("binop " + op.String() + " on " + at.String()))
	}
	w, signed := intInfo(at)
	f := func(name string) Val { return sc("("+name+" "+a.T+" "+b.T+")", rt) }
	cmp := func(s, u string) Val {
		if signed {
			return f(s)
		}
		return f(u)
	}
	switch op {
	case token.ADD:
		if fs := c.DB.Funcs[c.fn]; fs != nil && fr != nil && !signed {
			if _, ok := fs.Flags["arithcheck"]; ok {
				c.safe(st, fr, "safe/arith", "(bvuge (bvadd "+a.T+" "+b.T+") "+a.T+")", fmt.Sprintf("unsigned addition on %s does not wrap", typeShort(at)))
			}
		}
		return f("bvadd")
	case token.SUB:
		return f("bvsub")
	case token.MUL:
		return f("bvmul")
	case token.AND:
		return f("bvand")
	case token.OR:
		return f("bvor")
	case token.XOR:
		return f("bvxor")
	case token.AND_NOT:
		return sc("(bvand "+a.T+" (bvnot "+b.T+"))", rt)
	case token.QUO, token.REM:
		c.safe(st, fr, "safe/div", "(not (= "+b.T+" "+bvInt(w, 0)+"))", "division by zero")
		if op == token.QUO {
			return cmp("bvsdiv", "bvudiv")
		}
		return cmp("bvsrem", "bvurem")
	case token.LSS:
		return cmp("bvslt", "bvult")
	case token.LEQ:
		return cmp("bvsle", "bvule")
	case token.GTR:
		return cmp("bvsgt", "bvugt")
	case token.GEQ:
		return cmp("bvsge", "bvuge")
	case token.SHL, token.SHR:
		return sc(shiftTerm(op, a.T, b.T, at, bt), rt)
	}
	panic(unsupported("binop " + op.String()))
}

func shiftTerm(op token.Token, a, b string, at, bt types.Type) string {
	w, signed := intInfo(at)
	bw, bsigned := intInfo(bt)
	if bt == nil {
		bw = w
	}
	_ = bsigned
	amt := b
	big := "false"
	if bw > w {
		big = fmt.Sprintf("(bvuge %s %s)", b, bvInt(bw, int64(w)))
		amt = fmt.Sprintf("((_ extract %d 0) %s)", w-1, b)
	} else if bw < w {
		amt = fmt.Sprintf("((_ zero_extend %d) %s)", w-bw, b)
	}
	var sh, over string
	switch {
	case op == token.SHL:
		sh, over = "(bvshl "+a+" "+amt+")", bvInt(w, 0)
	case signed:
		sh, over = "(bvashr "+a+" "+amt+")", "(bvashr "+a+" "+bvInt(w, int64(w-1))+")"
	default:
		sh, over = "(bvlshr "+a+" "+amt+")", bvInt(w, 0)
	}
	if big == "false" {
		return sh
	}
	return "(ite " + big + " " + over + " " + sh + ")"
}

func (c *Ctx) ufApp(name string, args []string, asorts []string, rsort string) string {
	key := name + "/" + strings.Join(asorts, ",") + "->" + rsort
	if !c.ufs[key] {
		c.ufs[key] = true
		if len(args) == 0 {
			c.emit(fmt.Sprintf("(declare-const %s %s)", name, rsort))
		} else {
			c.emit(fmt.Sprintf("(declare-fun %s (%s) %s)", name, strings.Join(asorts, " "), rsort))
		}
	}
	if len(args) == 0 {
		return name
	}
	return "(" + name + " " + strings.Join(args, " ") + ")"
}

func (c *Ctx) convert(fr *Frame, st *State, v Val, from, to types.Type) Val {
	cf, ct := classOf(from), classOf(to)
	switch {
	case cf == CInt && ct == CInt:
		fw, _ := intInfo(from)
		tw, _ := intInfo(to)
		if tw < fw {
			c.convCheck(fr, st, v, from, to)
		}
		return sc(convInt(v.T, from, to), to)
	case cf == CUPtr && ct == CUPtr:
		v.Typ = to
		return v
	case ct == CUPtr: // pointer -> unsafe.Pointer
		if v.K == VLoc {
			if len(v.L.keys) == 2 {
				sz := c.sizeof(v.L.typ)
				return Val{K: VUPtr, Typ: to, F: []Val{sc(v.L.keys[0], nil), sc(fmt.Sprintf("(bvmul %s %s)", v.L.keys[1], bvInt(64, sz)), nil)}}
			}
			panic(unsupported("unsafe.Pointer to a field cell"))
		}
		ref := c.refOf(v)
		return Val{K: VUPtr, Typ: to, F: []Val{sc(ref, nil), sc(bvInt(64, 0), nil)}}
	case cf == CUPtr: // unsafe.Pointer -> *T
		return sc(c.ufApp("uptr2ref", []string{v.F[0].T, v.F[1].T}, []string{"Int", sortIdx}, "Int"), to)
	case cf == ct && cf != CStruct:
		r := v
		r.Typ = to
		return r
	case cf == CInt && ct == CFloat, cf == CFloat && ct == CInt, cf == CInt && ct == CRef, cf == CRef && ct == CSlice, cf == CSlice && ct == CRef:
		c.note("numeric/string conversions outside the integers are uninterpreted")
		return c.freshVal(to, "conv")
	}
	panic(unsupported(fmt.Sprintf("convert %s -> %s", from, to)))
}

// convCheck: narrowing conversions must be lossless unless the contract marks the function 'truncates'.
func (c *Ctx) convCheck(fr *Frame, st *State, v Val, from, to types.Type) {
	if fs := c.DB.Funcs[fr.key]; fs != nil {
		if _, ok := fs.Flags["truncates"]; ok {
			return
		}
	}
	if fs := c.DB.Funcs[c.fn]; fs == nil || fs.Flags["convcheck"] == "" {
		if _, ok := c.DB.Funcs[c.fn]; !ok {
			return
		}
		if _, ok := c.DB.Funcs[c.fn].Flags["convcheck"]; !ok {
			return
		}
	}
	back := convInt(convInt(v.T, from, to), to, from)
	_, fs := intInfo(from)
	_, ts := intInfo(to)
	goal := "(= " + back + " " + v.T + ")"
	if fs && !ts {
		w, _ := intInfo(from)
		goal = and(goal, "(bvsge "+v.T+" "+bvInt(w, 0)+")")
	}
	c.safe(st, fr, "safe/conv", goal, fmt.Sprintf("lossless conversion %s -> %s", typeShort(from), typeShort(to)))
}

func (c *Ctx) sizeof(t types.Type) int64 {
	sizes := types.SizesFor("gc", "amd64")
	return sizes.Sizeof(t)
}

func (c *Ctx) makeIface(st *State, v Val, from, to types.Type) Val {
	if classOf(from) == CIface {
		r := v
		r.Typ = to
		return r
	}
	tag := fmt.Sprintf("%d", c.typeTag(from))
	switch classOf(from) {
	case CRef:
		if v.K == VScalar {
			if _, ok := under(from).(*types.Pointer); ok {
				return Val{K: VIface, Typ: to, F: []Val{sc(tag, nil), sc(v.T, nil)}}
			}
		}
	case CStruct:
		ref := c.alloc(st, "box")
		c.storeStruct(st, from, ref, v)
		return Val{K: VIface, Typ: to, F: []Val{sc(tag, nil), sc(ref, nil)}}
	}
	// other payloads (strings, ints, ...): opaque box
	ref := c.alloc(st, "box")
	return Val{K: VIface, Typ: to, F: []Val{sc(tag, nil), sc(ref, nil)}}
}

func (c *Ctx) typeAssert(fr *Frame, st *State, x *ssa.TypeAssert) Val {
	v := c.val(fr, x.X)
	if v.K != VIface {
		panic(unsupported("type assertion on non-interface value"))
	}
	var ok string
	var res Val
	if classOf(x.AssertedType) == CIface {
		ok = "(not (= " + v.F[0].T + " 0))"
		c.note("assertion to an interface type assumes every non-nil dynamic type implements it")
		res = v
		res.Typ = x.AssertedType
	} else {
		ok = fmt.Sprintf("(= %s %d)", v.F[0].T, c.typeTag(x.AssertedType))
		switch classOf(x.AssertedType) {
		case CRef:
			res = sc(v.F[1].T, x.AssertedType)
		case CStruct:
			res = c.loadStruct(st, x.AssertedType, v.F[1].T)
		default:
			res = c.freshVal(x.AssertedType, "unboxed")
		}
	}
	if x.CommaOk {
		okv := c.define("ok", "Bool", ok)
		z := c.zeroVal(x.AssertedType)
		return Val{K: VTuple, Typ: x.Type(), F: []Val{iteVal(okv, res, z), sc(okv, types.Typ[types.Bool])}}
	}
	c.safe(st, fr, "safe/assert", ok, "type assertion without comma-ok must succeed")
	return res
}

func (c *Ctx) doSlice(fr *Frame, st *State, x *ssa.Slice) Val {
	base := c.val(fr, x.X)
	if x.Low != nil {
		lo := c.val(fr, x.Low)
		if !isZeroLit(lo.T) {
			panic(unsupported("slicing with a non-zero low bound"))
		}
	}
	var data, ln, cp string
	switch bt := under(x.X.Type()).(type) {
	case *types.Slice:
		data, ln, cp = base.F[0].T, base.F[1].T, base.F[2].T
	case *types.Pointer:
		arr := under(bt.Elem()).(*types.Array)
		if base.K != VScalar {
			panic(unsupported("slice of an array field"))
		}
		data, ln, cp = base.T, bvInt(64, arr.Len()), bvInt(64, arr.Len())
	default:
		panic(unsupported("slice of " + x.X.Type().String()))
	}
	if x.Max != nil {
		m := c.idx64(c.val(fr, x.Max))
		c.safe(st, fr, "safe/slice", fmt.Sprintf("(and (bvsle #x0000000000000000 %s) (bvsle %s %s))", m, m, cp), "slice max within capacity")
		cp = m
	}
	if x.High != nil {
		h := c.idx64(c.val(fr, x.High))
		c.safe(st, fr, "safe/slice", fmt.Sprintf("(and (bvsle #x0000000000000000 %s) (bvsle %s %s))", h, h, cp), "slice bound within capacity")
		ln = h
	}
	return Val{K: VSlice, Typ: x.Type(), F: []Val{sc(data, nil), sc(ln, nil), sc(cp, nil)}}
}

func isZeroLit(t string) bool {
	return strings.HasPrefix(t, "#x") && strings.Trim(t[2:], "0") == ""
}

func (c *Ctx) makeSlice(fr *Frame, st *State, x *ssa.MakeSlice) Val {
	ln := c.idx64(c.val(fr, x.Len))
	cp := c.idx64(c.val(fr, x.Cap))
	c.safe(st, fr, "safe/makelen", fmt.Sprintf("(and (bvsle #x0000000000000000 %s) (bvsle %s %s) (bvslt %s #x0000000080000000))", ln, ln, cp, cp), "make: 0 <= len <= cap < 2^31 (A1)")
	data := c.alloc(st, "mk")
	et := under(x.Type()).(*types.Slice).Elem()
	c.initBacking(st, et, data, -1)
	return Val{K: VSlice, Typ: x.Type(), F: []Val{sc(data, nil), sc(ln, nil), sc(cp, nil)}}
}

// ---------- maps ----------

type mapHeaps struct {
	has, val, ln string
	ksort        string
	vleaves      []leaf
	vt           types.Type
}

func (c *Ctx) mapKey(k Val) string {
	if k.K == VStruct {
		// pack all scalar fields into one bit-vector
		ts := flat(k)
		if len(ts) == 1 {
			return ts[0]
		}
		return "(concat " + strings.Join(ts, " ") + ")"
	}
	if k.K == VIface {
		return k.F[1].T // interface keys (reflect.Type): identity of the payload pointer
	}
	return k.T
}

func keySort(t types.Type) string {
	if classOf(t) == CIface {
		return "Int"
	}
	if classOf(t) == CStruct {
		s := under(t).(*types.Struct)
		w := 0
		for i := 0; i < s.NumFields(); i++ {
			if classOf(s.Field(i).Type()) != CInt {
				panic(unsupported("map key struct with non-integer field"))
			}
			fw, _ := intInfo(s.Field(i).Type())
			w += fw
		}
		return bvSort(w)
	}
	return scalarSort(t)
}

func (c *Ctx) mapInfo(t types.Type) *mapHeaps {
	mt := under(t).(*types.Map)
	base := "M$" + typeKey(mt.Key()) + "$" + typeKey(mt.Elem())
	ks := keySort(mt.Key())
	m := &mapHeaps{has: base + ".has", ln: base + ".len", val: base + ".val", ksort: ks, vt: mt.Elem()}
	c.mapHeapDecl(m.has, "(Array "+ks+" Bool)")
	c.mapHeapDecl(m.ln, sortIdx)
	if classOf(mt.Elem()) == CStruct {
		panic(unsupported("map with struct values"))
	}
	m.vleaves = leavesOf(mt.Elem())
	for _, lf := range m.vleaves {
		c.mapHeapDecl(m.val+lf.suffix, "(Array "+ks+" "+lf.sort+")")
	}
	return m
}

func (c *Ctx) mapHeapDecl(name, vsort string) {
	if _, ok := c.heaps[name]; ok {
		return
	}
	c.heaps[name] = &heapInfo{sort: "(Array Int " + vsort + ")", vsort: vsort, keys: 1}
	c.horder = append(c.horder, name)
	c.emit(fmt.Sprintf("(declare-const %s (Array Int %s))", heap0Name(name), vsort))
}

func (c *Ctx) makeMap(st *State, t types.Type) Val {
	m := c.mapInfo(t)
	ref := c.alloc(st, "map")
	c.hset(st, m.has, fmt.Sprintf("(store %s %s ((as const (Array %s Bool)) false))", c.hget(st, m.has), ref, m.ksort))
	c.hset(st, m.ln, fmt.Sprintf("(store %s %s %s)", c.hget(st, m.ln), ref, bvInt(64, 0)))
	return sc(ref, t)
}

func (c *Ctx) mapGet(st *State, t types.Type, ref, key string) (has string, val Val) {
	m := c.mapInfo(t)
	has = fmt.Sprintf("(and (not (= %s 0)) (select (select %s %s) %s))", ref, c.hget(st, m.has), ref, key)
	var terms []string
	for _, lf := range m.vleaves {
		terms = append(terms, fmt.Sprintf("(select (select %s %s) %s)", c.hget(st, m.val+lf.suffix), ref, key))
	}
	val = c.shape(m.vt, terms)
	return
}

func (c *Ctx) lookup(fr *Frame, st *State, x *ssa.Lookup) Val {
	if _, ok := under(x.X.Type()).(*types.Map); !ok {
		panic(unsupported("string indexing"))
	}
	mv := c.val(fr, x.X)
	key := c.mapKey(c.val(fr, x.Index))
	has, val := c.mapGet(st, x.X.Type(), mv.T, key)
	hasN := c.define("has", "Bool", has)
	z := c.zeroVal(under(x.X.Type()).(*types.Map).Elem())
	res := iteVal(hasN, val, z)
	c.assumeAllocated(st, res)
	if x.CommaOk {
		return Val{K: VTuple, Typ: x.Type(), F: []Val{res, sc(hasN, types.Typ[types.Bool])}}
	}
	return res
}

func (c *Ctx) mapUpdate(fr *Frame, st *State, x *ssa.MapUpdate) {
	mv := c.val(fr, x.Map)
	c.safe(st, fr, "safe/mapnil", "(not (= "+mv.T+" 0))", "assignment to entry in nil map")
	c.mapStore(st, x.Map.Type(), mv.T, c.mapKey(c.val(fr, x.Key)), c.val(fr, x.Value))
}

func (c *Ctx) mapStore(st *State, t types.Type, ref, key string, v Val) {
	m := c.mapInfo(t)
	hasArr := fmt.Sprintf("(select %s %s)", c.hget(st, m.has), ref)
	old := c.define("had", "Bool", "(select "+hasArr+" "+key+")")
	c.hset(st, m.has, fmt.Sprintf("(store %s %s (store %s %s true))", c.hget(st, m.has), ref, hasArr, key))
	ln := fmt.Sprintf("(select %s %s)", c.hget(st, m.ln), ref)
	c.hset(st, m.ln, fmt.Sprintf("(store %s %s (ite %s %s (bvadd %s %s)))", c.hget(st, m.ln), ref, old, ln, ln, bvInt(64, 1)))
	terms := flat(v)
	for i, lf := range m.vleaves {
		cur := c.hget(st, m.val+lf.suffix)
		c.hset(st, m.val+lf.suffix, fmt.Sprintf("(store %s %s (store (select %s %s) %s %s))", cur, ref, cur, ref, key, terms[i]))
	}
	if worldStore(m.has, ref) {
		c.markDirty(st, ref)
	}
}

func (c *Ctx) mapDelete(st *State, t types.Type, ref, key string) {
	m := c.mapInfo(t)
	hasArr := fmt.Sprintf("(select %s %s)", c.hget(st, m.has), ref)
	old := c.define("had", "Bool", "(and (not (= "+ref+" 0)) (select "+hasArr+" "+key+"))")
	c.hset(st, m.has, fmt.Sprintf("(store %s %s (store %s %s false))", c.hget(st, m.has), ref, hasArr, key))
	ln := fmt.Sprintf("(select %s %s)", c.hget(st, m.ln), ref)
	c.hset(st, m.ln, fmt.Sprintf("(store %s %s (ite %s (bvsub %s %s) %s))", c.hget(st, m.ln), ref, old, ln, bvInt(64, 1), ln))
	if worldStore(m.has, ref) {
		c.markDirty(st, ref)
	}
}

// foldLit evaluates comparisons between literals (constant array indices and the like).
func foldLit(g string) string {
	var op, a, b string
	if n, _ := fmt.Sscanf(g, "(%s %s %s", &op, &a, &b); n == 3 && strings.HasPrefix(a, "#x") && strings.HasPrefix(b, "#x") && strings.HasSuffix(b, ")") && !strings.Contains(b[:len(b)-1], ")") {
		b = b[:len(b)-1]
		x, ok1 := new(big.Int).SetString(a[2:], 16)
		y, ok2 := new(big.Int).SetString(b[2:], 16)
		if ok1 && ok2 && len(a) == len(b) {
			switch op {
			case "bvult":
				return fmt.Sprint(x.Cmp(y) < 0)
			case "bvule":
				return fmt.Sprint(x.Cmp(y) <= 0)
			case "bvugt":
				return fmt.Sprint(x.Cmp(y) > 0)
			case "bvuge":
				return fmt.Sprint(x.Cmp(y) >= 0)
			}
		}
	}
	return g
}

func containsStr(xs []string, s string) bool {
	for _, x := range xs {
		if x == s {
			return true
		}
	}
	return false
}

func subsetStr(a, b []string) bool {
	for _, x := range a {
		if !containsStr(b, x) {
			return false
		}
	}
	return true
}

// invariantTerm: the term mentions no name introduced after the loop head.
func invariantTerm(t string, late map[string]bool) bool {
	for _, tok := range strings.FieldsFunc(t, func(r rune) bool { return r == '(' || r == ')' || r == ' ' }) {
		if late[tok] || strings.HasPrefix(tok, "Hl.") || strings.HasPrefix(tok, "now.l") {
			return false // introduced in the loop, or reads memory that the loop modifies
		}
	}
	return true
}

// stepGuarded executes one instruction; an instruction outside the supported subset ends the path with
// the obligation that the path is infeasible (so unsupported code may only sit behind a proved panic).
func (c *Ctx) stepGuarded(fr *Frame, st *State, ins ssa.Instruction) {
	defer func() {
		if r := recover(); r != nil {
			u, ok := r.(unsupportedErr)
			if !ok || !c.tolerant {
				panic(r)
			}
			n := 0
			for _, o := range c.obls {
				if o.Kind == "unreachable" {
					n++
				}
			}
			o := c.obligeAt(st, "unreachable", fmt.Sprintf("%s/unreachable#%d", c.fn, n+1), "false", "code outside the verified subset ("+u.msg+") must be unreachable here")
			o.Pos = c.P.pos(c.curPos)
			st.reach = "false"
		}
	}()
	c.step(fr, st, ins)
}

// elemKeyPattern recognises keys (sub$.. (elem D I)) whose backing store D is loop-invariant while the index
// varies; the pattern "@elems D fn1 fn2.." stands for all elements of D (fn: enclosing sub-object functions, outermost first).
func elemKeyPattern(key string, late map[string]bool) (string, bool) {
	var fns []string
	k := key
	for strings.HasPrefix(k, "(sub$") {
		i := strings.Index(k, " ")
		fns = append(fns, k[1:i])
		k = firstArg(k[i+1 : len(k)-1])
	}
	if !strings.HasPrefix(k, "(elem ") {
		return "", false
	}
	d := firstArg(k[6 : len(k)-1])
	if strings.Contains(d, " ") || !invariantTerm(d, late) {
		return "", false
	}
	return strings.TrimSpace("@elems " + d + " " + strings.Join(fns, " ")), true
}

// rootOfKey strips sub-object and element wrappers: the allocation a key belongs to.
func rootOfKey(k string) string {
	for {
		switch {
		case strings.HasPrefix(k, "(sub$"):
			i := strings.Index(k, " ")
			k = firstArg(k[i+1 : len(k)-1])
		case strings.HasPrefix(k, "(elem "):
			k = firstArg(k[6 : len(k)-1])
		default:
			return k
		}
	}
}
