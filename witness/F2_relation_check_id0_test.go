package ecs

// Witness for the C05/C10 finding: checkRelation and Query.Relation compared only the relation component ID
// with the requested ID. A table without relation has Relation == ID{} (id 0), so a NON-relation component that
// happens to have ID 0 passed the check: Relations.Get/Set and Query.Relation did not panic.

import "testing"

type witnessPlain struct{ X int }
type witnessRel struct {
	Relation
}

func TestWitnessF2(t *testing.T) {
	w := NewWorld()
	plainID := ComponentID[witnessPlain](&w) // ID 0, not a relation component
	_ = ComponentID[witnessRel](&w)
	e := w.NewEntity(plainID)
	mustPanic := func(name string, f func()) {
		defer func() {
			if recover() == nil {
				t.Errorf("%s: expected a panic for a non-relation component", name)
			}
		}()
		f()
	}
	mustPanic("Relations.Get", func() { w.Relations().Get(e, plainID) })
	mustPanic("Relations.Set", func() { w.Relations().Set(e, plainID, Entity{}) })
	q := w.Query(All(plainID))
	for q.Next() {
		mustPanic("Query.Relation", func() { q.Relation(plainID) })
	}
}
