package ecs

// Witness for the C05/C10 finding: Relations.Exchange / ExchangeBatch (and generic.Map.Add etc. with a target)
// accepted a dead entity as relation target, while Relations.Set, NewEntity builders and batch creation all
// panic with "can't make a dead entity a relation target".

import "testing"

type witnessRel5 struct {
	Relation
}
type witnessPos5 struct{ X int }

func TestWitnessF5(t *testing.T) {
	w := NewWorld()
	posID := ComponentID[witnessPos5](&w)
	relID := ComponentID[witnessRel5](&w)
	target := w.NewEntity(posID)
	w.RemoveEntity(target) // target is dead now
	e := w.NewEntity(posID)
	mustPanic := func(name string, f func()) {
		defer func() {
			if recover() == nil {
				t.Errorf("%s: a dead relation target was accepted", name)
			}
		}()
		f()
	}
	mustPanic("Relations.Exchange", func() { w.Relations().Exchange(e, []ID{relID}, nil, relID, target) })
	e2 := w.NewEntity(posID)
	_ = e2
	mustPanic("Relations.ExchangeBatch", func() { f := All(posID).Without(relID); w.Relations().ExchangeBatch(&f, []ID{relID}, nil, relID, target) })
}
