package ecs

// Witness for the C16 finding "layout table sizing overflows uint8 above 240 component types".
// On the unfixed code: with more than 240 registered component types, capacityNonZero(count, 16) = 256 is
// converted to uint8 (= 0) in createArchetype, so every new table gets an empty layout table and the first
// access panics (index out of range); and id+layoutChunkSize wraps at id 240 so existing tables are not extended.

import (
	"reflect"
	"testing"
)

func TestWitnessF1(t *testing.T) {
	w := NewWorld()
	ids := make([]ID, 0, 250)
	for i := 0; i < 250; i++ {
		tp := reflect.ArrayOf(i+1, reflect.TypeOf(uint8(0))) // 250 distinct component types
		ids = append(ids, TypeID(&w, tp))
	}
	e := w.NewEntity(ids[245]) // new table created after >240 registrations
	if !w.Has(e, ids[245]) || w.Has(e, ids[3]) {
		t.Fatal("wrong components")
	}
	e2 := w.NewEntity(ids[0], ids[249])
	if !w.Has(e2, ids[249]) || !w.Has(e2, ids[0]) || w.Has(e2, ids[100]) {
		t.Fatal("wrong components")
	}
}
