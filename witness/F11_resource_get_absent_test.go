package generic

// Witness for the C20 finding fixed by "fix: generic.Resource.Get / ecs.GetResource return nil for an absent resource":
// on the unfixed code both calls panic ("interface conversion: interface is nil, not *...") although Get of an absent
// resource is documented to return nil.

import (
	"testing"

	"github.com/mlange-42/arche/ecs"
)

type witnessRes struct{ V int }

func TestWitnessF11(t *testing.T) {
	w := ecs.NewWorld()
	r := NewResource[witnessRes](&w)
	if r.Has() {
		t.Fatal("unexpected resource")
	}
	if r.Get() != nil { // panics on the unfixed code
		t.Fatal("expected nil")
	}
	if ecs.GetResource[witnessRes](&w) != nil { // panics on the unfixed code
		t.Fatal("expected nil")
	}
}
