package ecs

// Witness for the C11 finding: a no-op exchange (nothing to add, nothing to remove) with a listener installed
// reached notifyExchange with a nil table and dereferenced it (nil pointer panic); without a listener the
// same call is a silent no-op. "Nothing is emitted when nothing changed" - and nothing must crash either.

import "testing"

func TestWitnessF16(t *testing.T) {
	w := NewWorld()
	posID := ComponentID[witnessPlain16](&w)
	e := w.NewEntity(posID)
	events := 0
	l := newTestListener(func(world *World, evt EntityEvent) { events++ })
	w.SetListener(&l)
	w.Exchange(e, nil, nil) // nil dereference on the unfixed code
	w.Add(e)                // same path
	w.Remove(e)
	if events != 0 {
		t.Fatalf("a no-op exchange emitted %d events", events)
	}
}

type witnessPlain16 struct{ X int }
