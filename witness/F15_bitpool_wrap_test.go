package ecs

import "testing"

func TestF15(t *testing.T) {
	w := NewWorld()
	qs := make([]Query, 0, 256)
	for i := 0; i < 256; i++ {
		qs = append(qs, w.Query(All()))
	}
	for i := range qs {
		qs[i].Close()
	}
	if w.IsLocked() {
		t.Fatal("still locked")
	}
	q := w.Query(All()) // panics "run out of the maximum of 256 bits" although nothing is locked
	q.Close()
}
