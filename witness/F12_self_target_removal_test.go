package ecs_test

// Witness for the C06 finding: removing an entity that is its own relation target (and the only entity of its table).
// RemoveEntity retires the emptied table twice: once through cleanupArchetypes(entity) (the table's target died) and
// once through cleanupArchetype(oldArch). Obligation that failed: ecs.World.RemoveEntity/pre@ecs.World.cleanupArchetype
// (the table must still sit in a slot of its node: index >= 0).

import (
	"testing"

	"github.com/mlange-42/arche/ecs"
)

type witnessF12Rel struct {
	ecs.Relation
}

func TestWitnessF12(t *testing.T) {
	w := ecs.NewWorld()
	relID := ecs.ComponentID[witnessF12Rel](&w)

	e := w.NewEntity(relID)
	w.Relations().Set(e, relID, e) // e targets itself; it is alone in the table for target e
	w.RemoveEntity(e)              // must not fail (C06: "including one that targets itself")

	if w.Alive(e) {
		t.Fatal("entity still alive")
	}
	// the world must remain usable: same component set, new target
	tgt := w.NewEntity()
	c := ecs.NewBuilder(&w, relID).WithRelation(relID).New(tgt)
	if w.Relations().Get(c, relID) != tgt {
		t.Fatal("wrong target")
	}
	d := ecs.NewBuilder(&w, relID).WithRelation(relID).New(c)
	if w.Relations().Get(d, relID) != c {
		t.Fatal("wrong target")
	}
}
