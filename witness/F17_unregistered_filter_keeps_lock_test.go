package ecs_test

// Witness for the C09 finding fixed by "fix: a query with an unregistered cached filter no longer leaves the world locked":
// World.Query (and the batch removal) took the lock BEFORE resolving the cached filter; for a filter that is not (or
// no longer) registered the resolution panics, no query exists, and the lock is never released: the world stays
// locked for ever although no query is open.
// Obligation that failed: ecs.World.Query/panic#2/on_panic (lock state at a refused call equals the one at entry).

import (
	"testing"

	"github.com/mlange-42/arche/ecs"
)

type witnessF17A struct{ V int }

func TestWitnessF17(t *testing.T) {
	w := ecs.NewWorld()
	idA := ecs.ComponentID[witnessF17A](&w)
	w.NewEntity(idA)

	cf := w.Cache().Register(ecs.All(idA))
	w.Cache().Unregister(&cf)

	func() {
		defer func() {
			if recover() == nil {
				t.Fatal("query with an unregistered cached filter must panic")
			}
		}()
		w.Query(&cf)
	}()
	if w.IsLocked() {
		t.Fatal("World.Query: the refused call left the world locked although no query is open")
	}

	func() {
		defer func() {
			if recover() == nil {
				t.Fatal("batch removal with an unregistered cached filter must panic")
			}
		}()
		w.Batch().RemoveEntities(&cf)
	}()
	if w.IsLocked() {
		t.Fatal("Batch.RemoveEntities: the refused call left the world locked")
	}
	w.NewEntity(idA) // the world is still usable
}
