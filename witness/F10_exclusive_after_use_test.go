package generic

// Witness for the C18 finding fixed by "fix: generic filters: Exclusive() invalidates the compiled filter":
// a FilterN that was used (compiled) before Exclusive() is called keeps its stale, non-exclusive compiled
// filter, so later queries are not evaluated "as configured at the time a query is built".
// Obligation that failed: generic.FilterN.Exclusive/ensures[cfg] (sat).

import (
	"testing"

	"github.com/mlange-42/arche/ecs"
)

type witnessF10A struct{ V int }
type witnessF10B struct{ V int }

func TestWitnessF10(t *testing.T) {
	w := ecs.NewWorld()
	idA := ecs.ComponentID[witnessF10A](&w)
	idB := ecs.ComponentID[witnessF10B](&w)
	w.NewEntity(idA)
	w.NewEntity(idA, idB)

	used := NewFilter1[witnessF10A]()
	q := used.Query(&w) // compiles the filter
	if q.Count() != 2 {
		t.Fatal("setup")
	}
	q.Close()
	used.Exclusive()
	q = used.Query(&w)
	got := q.Count()
	q.Close()

	fresh := NewFilter1[witnessF10A]().Exclusive()
	q = fresh.Query(&w)
	want := q.Count()
	q.Close()

	if got != want {
		t.Fatalf("filter used before Exclusive() selects %d entities, the same configuration built fresh selects %d", got, want)
	}
}
