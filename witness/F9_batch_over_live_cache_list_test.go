package ecs_test

// Witness for the C08 finding: batch operations with a registered (cached) filter iterate the cache's LIVE table list
// while they retire tables, and retiring a table swap-removes it from that very list. Here two relation tables whose
// targets are dead are emptied by one Batch.RemoveEntities call: retiring the first one moves the second into its
// place and nils the last slot, the loop then dereferences nil (and the world stays locked).
// Obligation that failed: ecs.World.getArchetypes/ensures[snapshot] (the list the batch operations work on must have a
// backing store of its own).

import (
	"testing"

	"github.com/mlange-42/arche/ecs"
)

type witnessF9Rel struct {
	ecs.Relation
}

func TestWitnessF9(t *testing.T) {
	w := ecs.NewWorld()
	relID := ecs.ComponentID[witnessF9Rel](&w)

	t1 := w.NewEntity()
	t2 := w.NewEntity()
	b := ecs.NewBuilder(&w, relID).WithRelation(relID)
	b.New(t1)
	b.New(t2)

	cf := w.Cache().Register(ecs.All(relID))

	w.RemoveEntity(t1) // the tables are not empty: they stay, now with dead targets
	w.RemoveEntity(t2)

	n := w.Batch().RemoveEntities(&cf) // must remove both children, as two single removals would
	if n != 2 {
		t.Fatalf("removed %d entities, want 2", n)
	}
	if w.IsLocked() {
		t.Fatal("world left locked")
	}
	q := w.Query(ecs.All(relID))
	if c := q.Count(); c != 0 {
		t.Fatalf("%d entities left", c)
	}
	q.Close()
}
