#!/usr/bin/env python3
"""Generates the per-arity contracts of package generic (C18) into /repo/generic/verif_contracts.go,
between the markers BEGIN/END GENERATED C18. The schema is written once here; arities 0..12 are instances.
usage: gen_generic_contracts.py [repo]"""
import sys, re
repo = sys.argv[1] if len(sys.argv) > 1 else '/repo'
L = "ABCDEFGHIJKL"

def targs(n):
    return "[" + ", ".join(L[:n]) + "]" if n else ""

# configuration invariant of a filter: a compiled filter was compiled from the present configuration
def cfg(f="f"):
    return (f"({f}.compiled.compiled ==> {f}.compiled.cExclusive == {f}.exclusive && {f}.compiled.cNIncl == len({f}.include) && {f}.compiled.cNOpt == len({f}.optional)"
            f" && {f}.compiled.cNExcl == len({f}.exclude) && {f}.compiled.cTargetType == {f}.targetType.val && {f}.compiled.cHasTarget == {f}.hasTarget"
            f" && ({f}.hasTarget ==> {f}.compiled.cTargetId == {f}.target.id && {f}.compiled.cTargetGen == {f}.target.gen)"
            f" && len({f}.compiled.Ids) == {f}.compiled.cNIncl && (!{f}.compiled.locked ==> {f}.compiled.filter != nil && !is({f}.compiled.filter, *CachedFilter)))")

def posinv(n, f="f"):
    # the three configuration lists never share a backing store (they only grow by append of their own)
    sep = (f"({f}.optional.data != nil ==> {f}.optional.data != {f}.include.data) && ({f}.exclude.data != nil ==> {f}.exclude.data != {f}.include.data)"
           f" && allocated({f}.include.data) && allocated({f}.optional.data) && allocated({f}.exclude.data)")
    return " && ".join([f"len({f}.include) >= {n}", sep] + [f"{f}.include[{k}] == rtypeOf(typeid({L[k]}))" for k in range(n)])

out = []
REG = "w.registry.Components[ALL], w.registry.Types[ALL], w.registry.Used.bits, w.registry.IsRelation.bits, w.registry.IDs, elems(uint8), all(archetypeData.layouts), all(archetypeAccess.basePointer)"
out.append("// ---- C18: configuration invariant of the generic filters (schema instantiated per arity by /verif/tools/gen_generic_contracts.py)")
out.append("// ghost snapshot of the configuration a compiledQuery was compiled from")
for g, t in [("cExclusive", "bool"), ("cNIncl", "int"), ("cNOpt", "int"), ("cNExcl", "int"), ("cTargetType", "ref"), ("cHasTarget", "bool"), ("cTargetId", "eid"), ("cTargetGen", "uint32")]:
    out.append(f"//@ ghostfield compiledQuery.{g} {t}")
out.append("")
for n in range(0, 13):
    T = f"Filter{n}{targs(n)}"
    inv = cfg()
    for m, params, mods in [("Optional", "f, mask", "f.optional, f.optional[ALL]"), ("With", "f, mask", "f.include, f.include[ALL]"), ("Without", "f, mask", "f.exclude, f.exclude[ALL]"),
                            ("Exclusive", "f", "f.exclusive"), ("WithRelation", "f, comp, target", "f.targetType, f.target, f.hasTarget")]:
        if n == 0 and m == "Optional":
            continue
        out.append(f"//@ func {T}.{m}({params}) (r)")
        out.append("//@   props C18")
        out.append(f"//@   requires {inv} && {posinv(n)}")
        out.append("//@   flag may_panic")
        out.append("//@   panics_if f.compiled.locked")
        out.append(f"//@   ensures[cfg] r == f && {inv}")
        out.append(f"//@   ensures[pos] {posinv(n)}")
        out.append(f"//@   modifies {mods}, f.compiled.compiled")
        out.append("")
# ---- positional plumbing -------------------------------------------------------------------------
def words(n):
    return ["zero","one","two","three","four","five","six","seven","eight","nine","ten","eleven","twelve"][n]
out.append("// ---- C18: positional plumbing (component k of the result is the component with the k-th ID)")
for n in range(0, 13):
    F = f"Filter{n}{targs(n)}"
    Q = f"Query{n}{targs(n)}"
    inv = cfg()
    ids = " && ".join([f"r.id{k} == f.compiled.Ids[{k}]" for k in range(n)])
    # FilterN.Filter / Query / Register compile with the CURRENT configuration
    out.append(f"//@ func {F}.Filter(f, w, target) (r)")
    out.append("//@   props C18")
    out.append(f"//@   requires w != nil && regInv(&w.registry) && {inv}")
    out.append("//@   flag may_panic")
    out.append(f"//@   ensures[cfg] f.compiled.compiled && {inv}")
    out.append("//@   modifies *(&f.compiled), " + REG)
    out.append("//@   ensures[kind] f.compiled.locked == old(f.compiled.locked) && (!f.compiled.locked ==> r != nil && !is(r, *CachedFilter))")
    out.append("//@   ensures[ids] !old(f.compiled.compiled) ==> (forall k int :: {f.compiled.Ids[k]} 0 <= k && k < len(f.include) ==> f.compiled.Ids[k].id == w.registry.Components[f.include[k].val])")
    out.append("//@   ensures[plain] len(target) == 0 ==> r == f.compiled.filter")
    out.append("//@   ensures[target] len(target) > 0 ==> is(r, *RelationFilter) && as(r, *RelationFilter) == &f.compiled.relationFilter && f.compiled.relationFilter.Target == target[0] && is(f.compiled.relationFilter.Filter, *MaskFilter) && as(f.compiled.relationFilter.Filter, *MaskFilter) == &f.compiled.maskFilter")
    out.append("")
    out.append(f"//@ func NewFilter{n}() (f)")
    out.append("//@   props C18")
    posn = " && ".join([f"len(f.include) == {n}", "f.optional.data == nil && f.exclude.data == nil"] + [f"f.include[{k}] == rtypeOf(typeid({L[k]}))" for k in range(n)])
    out.append(f"//@   ensures[pos] f != nil && {posn}")
    out.append(f"//@   ensures[inv] {posinv(n)}")
    out.append("//@   ensures[fresh] !f.compiled.compiled && !f.compiled.locked && len(f.optional) == 0 && len(f.exclude) == 0 && !f.exclusive && f.targetType == nil && !f.hasTarget")
    out.append("")
    out.append(f"//@ func {F}.Query(f, w, target) (r)")
    out.append("//@   props C18")
    out.append(f"//@   requires w != nil && regInv(&w.registry) && lockInv(&w.locks) && !f.compiled.locked && {posinv(n)} && {inv}")
    out.append("//@   requires forall id uint32 :: {mapHas(w.filterCache.indices, id)} mapHas(w.filterCache.indices, id) ==> 0 <= w.filterCache.indices[id] && w.filterCache.indices[id] < len(w.filterCache.filters)")
    out.append("//@   flag may_panic")
    out.append(f"//@   ensures[cfg] f.compiled.compiled && {inv}")
    pos = " && ".join([f"r.id{k} == f.compiled.Ids[{k}]" for k in range(n)] + ["r.relation == f.compiled.Relation", "r.hasRelation == f.compiled.HasRelation", "r.Query.world == w"])
    out.append(f"//@   ensures[pos] {pos}")
    if n > 0:
        typed = " && ".join([f"r.id{k}.id == w.registry.Components[rtypeOf(typeid({L[k]})).val]" for k in range(n)])
        out.append(f"//@   ensures[typed] !old(f.compiled.compiled) ==> {typed}")
    out.append("//@   modifies *(&f.compiled), " + REG + ", w.locks.locks.bits, *(&w.locks.bitPool)")
    out.append("")
    if n > 0:
        rets = ", ".join([f"r{k}" for k in range(n)])
        out.append(f"//@ func {Q}.Get(q) ({rets})")
        out.append("//@   props C18")
        out.append("//@   requires q.Query.access != nil")
        for k in range(n):
            out.append(f"//@   ensures[pos{k}] ref(r{k}) == asRef(compAt(q.Query.access, q.Query.entityIndex, q.id{k}.id))")
        out.append("")
    M = f"Map{n}{targs(n)}"
    if 0 < n <= 8:  # arities 9..12: the chain of registrations is beyond the solvers' time limits (same template)
        out.append(f"//@ func NewMap{n}(w, relation) (m)")
        out.append("//@   props C18")
        out.append("//@   requires w != nil && regInv(&w.registry)")
        out.append("//@   flag may_panic")
        posm = " && ".join([f"m.world == w && len(m.ids) == {n}"] + [f"m.ids[{k}].id == m.id{k}.id && m.id{k}.id == w.registry.Components[rtypeOf(typeid({L[k]})).val]" for k in range(n)])
        out.append(f"//@   ensures[pos] regInv(&w.registry) && {posm}")
        anyid = " || ".join([f"i == m.id{k}.id" for k in range(n)])
        out.append("//@   ensures[mask] forall i uint8 :: {bitU(m.mask, i)} bitU(m.mask, i) == (validID(i) && (" + anyid + "))")
        out.append("//@   ensures[rel] m.hasRelation == (len(relation) > 0) && (len(relation) > 0 ==> m.relation.id == w.registry.Components[relation[0].val])")
        out.append("//@   modifies " + REG)
        out.append("")
    if n > 0:
        rets = ", ".join([f"r{k}" for k in range(n)])
        out.append(f"//@ func {M}.GetUnchecked(m, entity) ({rets})")
        out.append("//@   props C18")
        out.append("//@   flag may_panic nosafe")
        for k in range(n):
            out.append(f"//@   ensures[pos{k}] ref(r{k}) == asRef(wgetU(m.world, entity, m.id{k}.id))")
        out.append("")
        out.append(f"//@ func {M}.Get(m, entity) ({rets})")
        out.append("//@   props C18")
        out.append("//@   flag may_panic nosafe")
        out.append(f"//@   ensures[pos0] ref(r0) == asRef(wget(m.world, entity, m.id0.id))")
        for k in range(1, n):
            out.append(f"//@   ensures[pos{k}] ref(r{k}) == asRef(wgetU(m.world, entity, m.id{k}.id))")
        out.append("")
open_marker, close_marker = "// BEGIN GENERATED C18", "// END GENERATED C18"
p = repo + "/generic/verif_contracts.go"
s = open(p).read()
block = open_marker + "\n" + "\n".join(out) + "\n" + close_marker + "\n"
if open_marker in s:
    s = s[:s.index(open_marker)] + block + s[s.index(close_marker) + len(close_marker) + 1:]
else:
    s = s.rstrip("\n") + "\n\n" + block
open(p, "w").write(s)
print("generated", len(out), "lines")
