#!/usr/bin/env python3
"""Must-fail corpus: applies each mutant of selftest/mutants.json to a scratch copy of /repo and demands
that `govc check -p <property>` reports a violation naming the expected obligation.
usage: selftest.py [property|name ...]"""
import json, os, shutil, subprocess, sys, tempfile

def main():
    muts = json.load(open('/verif/selftest/mutants.json'))
    sel = sys.argv[1:]
    bad = 0
    for m in muts:
        if sel and m['property'] not in sel and m['name'] not in sel:
            continue
        tmp = tempfile.mkdtemp(prefix='govc-mut-')
        try:
            scr = os.path.join(tmp, 'repo')
            subprocess.check_call(['rsync', '-a', '--exclude', '.git', '--exclude', 'docs', '--exclude', 'benchmark', '--exclude', '_examples', '/repo/', scr + '/'])
            path = os.path.join(scr, m['file'])
            src = open(path).read()
            if src.count(m['old']) != 1:
                print(f"MUTANT-STALE {m['name']}: pattern occurs {src.count(m['old'])} times"); bad += 1; continue
            open(path, 'w').write(src.replace(m['old'], m['new']))
            b = subprocess.run(['go', 'build', './ecs/...', './filter/...', './listener/...', './generic/...'], cwd=scr, capture_output=True, text=True,
                               env=dict(os.environ, GOFLAGS='-mod=mod', GOWORK='off', GOPROXY='off', GOSUMDB='off', GOTOOLCHAIN='local'))
            if b.returncode != 0:
                print(f"MUTANT-NOBUILD {m['name']}: {b.stderr[:300]}"); bad += 1; continue
            r = subprocess.run(['/verif/bin/govc', 'check', '-p', m['property'], '-repo', scr, '-no-evidence', '-verif', os.path.join(tmp, 'v')], capture_output=True, text=True)
            viol = [l for l in r.stdout.splitlines() if l.startswith('VIOLATION')]
            hit = [l for l in viol if m['expect'] in l]
            if r.returncode == 1 and hit:
                rep = 'replayed' if any('no-failing-input-found' not in l for l in hit) else 'no-input'
                print(f"caught   {m['property']} {m['name']}: {len(viol)} violation(s), expected obligation hit ({rep})")
            else:
                bad += 1
                print(f"MISSED   {m['property']} {m['name']}: exit={r.returncode} violations={viol[:3]}")
        finally:
            shutil.rmtree(tmp, ignore_errors=True)
    sys.exit(1 if bad else 0)
main()
