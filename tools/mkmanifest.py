#!/usr/bin/env python3
"""Regenerates /verif/MANIFEST.json from the table below (single source for the claims)."""
import json, subprocess

SETUP = "cd /verif && GOFLAGS=-mod=vendor GOWORK=off GOTOOLCHAIN=local GOPROXY=off GOSUMDB=off go build -o bin/govc ./cmd/govc"
BASE_OFF = "cd /repo && GOFLAGS=-mod=mod GOWORK=off GOPROXY=off GOSUMDB=off GOTOOLCHAIN=local go test -vet=off -count=1 ./ecs/... ./filter/... ./generic/... ./listener/..."

TRUST = ("Trusted: go/ssa (x/tools v0.29.0) as the representation of the compiled code, govc's SSA-to-SMT translation, the SMT solvers; "
         "exact 64-bit machine integers; A1 (lengths < 2^31), A4 (caller obligations) as listed in the evidence file; "
         "the composition of per-function proofs into a statement over all histories (invariant rule) is a paper step.")

# id -> (claimed text, note, technique)   ; ids absent here are listed as not_applicable with the reason in NA
CLAIMS = {
 "C04": ("Every Mask operation is proved equal to the set operation on the bit view (specBit) for all 2^256 masks (2^64 in the tiny build) and all IDs of the build's ID range; "
         "All/Without/filter constructors by loop invariant; MaskFilter, Mask-as-filter, Relation/Cached filter and every logic filter of package filter are proved against their boolean definition over the abstract matches() of their children (so nesting needs no bound); "
         "the Exclusive lemma (Include/~Include matches exactly Include) is an SMT lemma. Both builds on every run.",
         TRUST + " IDs outside the build's range (>=64 in tiny) are excluded by precondition, as in the property's quantifier.",
         "contract-based deductive verification: WP/symbolic execution over go/ssa, obligations discharged by z3/cvc5"),
 "C12": ("Both copies of subscribes() (ecs and listener) are proved equal to the documented rule subRule for all 2^8 trigger masks, all component restrictions (nil or any mask) and all relation-pointer cases, in both builds; "
         "subscription() is proved bit-exact; lemma subMono proves that a larger subscription/restriction never withholds an event a smaller one selects; NewDispatch/AddListener are proved to maintain 'the Dispatch covers every sub-listener' (events superset, component superset or nil), "
         "so by subMono the world never withholds an event from a Dispatch that a sub-listener selects; Dispatch.Notify is proved, by loop invariant over ghost notification counters, to call Notify on sub-listener k exactly when the rule selects the event for k, with the unchanged event; Callback accessors return the configured restriction.",
         TRUST + " Listener.Subscriptions/Components are modelled as pure functions of the listener (A4); sub-listeners of one Dispatch are assumed pairwise distinct objects; Callback.Notify (a call through a func value) is not under contract. The world-side trigger computation at each notification site is checked under C11.",
         "contract-based deductive verification: WP/symbolic execution over go/ssa, obligations discharged by z3/cvc5"),
 "C09": ("(1) bit pool and lock mask are proved against a ghost permutation view: Lock returns a bit that was not set and sets exactly it, Unlock panics unless the bit is set and clears exactly it, IsLocked iff some bit is set, the limit panic happens exactly at 256 (64 tiny) simultaneously held bits, Reset empties; all preserve lockInv (both builds). "
         "(2) The lock rule: every exported function or method of packages ecs and generic from which a structural sink (entity pool, table storage, graph, registry, target bits) is reachable in the static call graph is enumerated mechanically (243 entry points today) and for each govc proves, with no annotation on the function: if the world is locked at entry, no world state is written before any exit - in particular before the 'locked world' panic; the proof is modular (calls to other entry points use their proved rule). "
         "(3) World.componentID is proved to restore the registry exactly (regSame) when a registration is attempted under lock.",
         TRUST + " World state = memory owned by World/tables/graph/pool/registry; the lock mask itself, resources (C20), the filter cache and listener slot are not structural state (listed in evidence). Exempt entry points (resource registration, NewWorld) are listed with reasons. Open/close pairing of queries (each open query releases its bit exactly once) is not yet under contract.",
         "contract-based deductive verification: WP/symbolic execution over go/ssa with SMT-checked path feasibility, obligations discharged by z3/cvc5"),
 "C20": ("Resources are proved against the slot view: Add panics iff the slot is occupied (nothing written before the panic), otherwise stores exactly the given interface value; Remove panics iff empty, otherwise clears; Get returns the stored value identically (same dynamic type and pointer), Has iff non-nil; every operation's frame is proved (only that one slot changes; locks, pool, tables and the component registry are outside the modifies clause); reset clears all slots (loop invariant); resource IDs come from w.resources.registry, a different object from w.registry, with the registry contracts of C16; generic.Resource[T].Get/Has/Add/Remove are proved against the same view, Get returning nil for an absent resource.",
         TRUST + " GetResource/AddResource compute the slot by reflection inside the function: their run-time checks are assumed and only the frame and the 'nothing stored => nil' clause are proved. Typed-slot convention (a slot of type T holds nil or *T) is a precondition of Resource[T].Get.",
         "contract-based deductive verification: WP/symbolic execution over go/ssa, obligations discharged by z3/cvc5"),
 "C13": ("Every function of the library packages (ecs, ecs/event, filter, listener, generic; all of them, not only those under contract) is checked on its SSA to stay inside a deterministic fragment: no iteration over maps, no select, goroutines or channel operations, no pointer-to-integer conversion, no calls into time, math/rand, os, sync or runtime; the LIFO orders of the bit pool are contract postconditions (Get returns the most recently recycled bit).",
         "The frame clause is decided syntactically on go/ssa (one obligation per function), not by SMT; determinism of Go on that fragment and of reflect/fmt/encoding/json is trusted; the conclusion 'same operations give same results in every process' is the paper step from 'every function is a deterministic function of arguments and reachable heap'. GC timing cannot be observed because no finalizers or address-dependent control flow exist in the fragment.",
         "contract-based verification, frame clause 'deterministic' checked on go/ssa for every function; pool order by SMT-discharged postconditions"),
 "C19": ("Every function of the library packages is checked on its SSA against the frame clause 'assigns no package state': no store, map update, append/copy/delete reaches a package-level variable outside init, and no package-level variable has its address stored, passed, captured or returned; every package-level variable is of an immutable kind (integer, reflect.Type). Hence two worlds share no mutable location.",
         "The frame clause is decided syntactically on go/ssa (one obligation per function and per package-level variable), not by SMT. The step from 'no shared mutable location' to 'no data race / no cross-talk for every interleaving' is an argument from the Go memory model; thread-safety of package reflect's internal caches is trusted.",
         "contract-based verification, frame clause 'assigns no package state' checked on go/ssa for every function"),
 "C16": ("The registry invariant (type->id map and id->type list are inverse bijections over 0..n-1, IDs dense in registration order, Used = exactly the low n bits, IsRelation a subset of Used, unused type slots nil, n <= limit) is proved to be established by newComponentRegistry and preserved by registerComponent, ComponentID and unregisterLastComponent, in both builds; ComponentID returns the existing id without any change (regSame) for a known type and id = n with exactly one new pair for a new one, the relation bit equal to the reflection predicate; one registration beyond the limit panics before any write; World.componentID additionally restores the registry exactly when a new registration is attempted in a locked world; TypeID, ComponentIDs, ComponentInfo, ResourceTypeID, ResourceIDs, ResourceType and resourceID are proved against the same view (resource IDs use a separate registry object). "
         "Layout-table sizing: every narrowing conversion and unsigned addition of createArchetype and componentID is an obligation (this is what exposed the uint8 overflow above 240 types, fixed).",
         TRUST + " reflect.Type identity is payload-pointer identity; the reflection predicate isRelation is an uninterpreted function (contract assumed); the storage side of 'all IDs usable' (getLayout bounds for every table, ExtendLayouts re-basing) touches unsafe memory and is only covered by the assumed contracts of Init/CreateArchetype/extendArchetypeLayouts plus the witness test; ComponentID[T]/ResourceID[T] wrappers are covered through TypeID/ResourceTypeID.",
         "contract-based deductive verification: WP/symbolic execution over go/ssa, obligations discharged by z3/cvc5"),
 "C02": ("The entity pool is proved against a ghost view (permutation of ids with the free list as its prefix, alive set, set of issued handles): Get returns an id that was not alive, makes exactly it alive, returns its current generation and a handle that was never issued before (since creation or the last Reset); recycled ids come back LIFO, fresh ids are the next index; Recycle (of an alive handle) makes exactly that id dead and strictly increases its generation; nobody else's liveness or generation changes; Alive(e) iff the generations agree; lemmas: a handle whose id was recycled since it was issued is never reported alive again (deadForever), the zero entity is never alive, two alive handles with one id are equal; Len = slots - free; Reset returns to the fresh pool view and empties the issued set. The bit set used for target flags and World.Alive are proved; invariants hold for all pool states and recycling depths.",
         TRUST + " KNOWN FINDING C02-gen-wrap: generations wrap at 2^32 (Recycle is proved under gen != MaxUint32; confirmed failing without it). The world-side paths (createEntity/createEntities index sizing, RemoveEntity, removeEntities, LoadEntities) call the pool under these contracts but are not themselves discharged yet (table storage is unsafe memory): 'alive count = creations - removals over all histories' is proved at the pool level only. capacity() (64-bit mul/div) is an assumed contract.",
         "contract-based deductive verification with ghost state: WP/symbolic execution over go/ssa, obligations discharged by z3/cvc5"),
 "C03": ("For the cached-filter (pre-filtered table list) strategy: Query.Next is proved to advance the global position P = psum(table index) + row by exactly one, moving to the first later non-empty table when the current one is exhausted (all skipped tables are empty), and to close the query and release its lock bit exactly when P was the last position; Step(n) (loop invariant) ends at P+n or exhausts exactly when fewer than n entities remain; Count returns psum(N); EntityAt(i) returns the entity at the unique table k with psum(k) <= i < psum(k+1) and row i-psum(k), and panics iff i is out of range; Entity() reads the current row; closeQuery releases exactly the query's bit. psum is one uninterpreted prefix-sum function shared by all of them, so Next/Step/Count/EntityAt agree by construction.",
         TRUST + " The batch-result and node-walk strategies run on other branches of the same functions and are excluded by the precondition q.isFiltered (not yet under contract). psum's defining equations are definitional assumptions; its monotonicity/no-overflow below 2^30 (a consequence by induction) is assumed where used. 'Visits every matching entity exactly once' is the induction on P over the successor contract (paper step). archetypeAccess.GetEntity (unsafe read) is an assumed contract. KNOWN FINDING C03-step-truncation (Step/EntityAt narrow int to uint32).",
         "contract-based deductive verification with an uninterpreted prefix-sum spec function: WP/symbolic execution over go/ssa, obligations discharged by z3/cvc5"),
}

NA = {
 "C14": "quantifies over garbage-collector schedules, write barriers and escape analysis; a sequential contract semantics has no state in which the hazard can be expressed (DESIGN.md section 5, C14)",
}
PENDING = "obligation groups for this property are not built yet (work in progress; see DESIGN.md section 8)"

def main():
    props = [json.loads(l) for l in open('/verif/properties.jsonl')]
    try:
        hooks = subprocess.check_output(['git','-C','/repo','log','--format=%H','--grep=^verif hook'],text=True).split()
    except Exception:
        hooks = []
    m = {"version": 1, "setup_cmd": SETUP,
         "hooks": {"guard": "verif", "enable": "-tags verif (contract comment files verif_contracts*.go; no executable code)", "baseline_off_cmd": BASE_OFF, "source_commits": hooks, "add_only": True},
         "engines": [{"name": "govc", "path": "/verif/cmd/govc", "serves_properties": sorted(CLAIMS), "kind_free_text": "self-built deductive verifier for Go: contracts as //@ comments, VC generation over go/ssa, SMT back ends z3 4.8.12 / z3 5.1.0 / cvc5 1.0, counterexample replay with go test -overlay"}],
         "checks": [], "not_applicable": [],
         "notes": "Contracts live in /repo/*/verif_contracts*.go (build tag verif, comments only). Known findings: /verif/known_findings.txt. Design: /verif/DESIGN.md."}
    for p in props:
        i = p["id"]
        if i in CLAIMS:
            text, note, tech = CLAIMS[i]
            m["checks"].append({"property_id": i, "quick_cmd": f"bin/govc check -p {i} -tier quick", "thorough_cmd": f"bin/govc check -p {i} -tier thorough",
                "evidence_file": f"/verif/evidence/{i}.json", "replay_cmd_template": "bin/govc replay {path}", "engine": "govc",
                "level_claimed": {"category": "proof", "text": text, "design_ref": f"DESIGN.md section 5 ({i})"}, "level_note": note, "technique": tech})
        else:
            m["not_applicable"].append({"property_id": i, "reason": NA.get(i, PENDING)})
    json.dump(m, open('/verif/MANIFEST.json','w'), indent=1)
    print("claimed:", sorted(CLAIMS), "not_applicable:", [x["property_id"] for x in m["not_applicable"]])

main()
