#!/bin/bash
# usage: seedcheck.sh <seed-id> <property> <dir-with patch.diff + demo test> <demo-pkg-dir> [extra go test tags]
# Confirms a seeded change (suite passes, demo fails with / passes without), runs the property check on it, stores it under /verif/seeded/<seed-id>.
set -u
ID=$1; PROP=$2; SRC=$3; PKG=$4
export GOFLAGS=-mod=mod GOPROXY=off GOSUMDB=off GOTOOLCHAIN=local GOWORK=off
WT=/tmp/seedwt-$ID
rm -rf $WT; git -C /repo worktree add -q --detach $WT HEAD || exit 2
DEMO=$(ls $SRC/*_test.go | head -1)
cp $DEMO $WT/$PKG/
cd $WT
echo "== demo WITHOUT change"; go test -vet=off -count=1 -run 'TestSeeded' ./$PKG 2>&1 | tail -2; W0=${PIPESTATUS[0]}
git apply $SRC/patch.diff || { echo "patch does not apply"; exit 2; }
echo "== build + suite WITH change (demo excluded)"; go build ./ecs/... ./filter/... ./generic/... ./listener/... && go test -vet=off -count=1 -skip 'TestSeeded' ./ecs/... ./filter/... ./generic/... ./listener/... 2>&1 | tail -7; S1=${PIPESTATUS[0]}
echo "== demo WITH change"; go test -vet=off -count=1 -run 'TestSeeded' ./$PKG 2>&1 | tail -3; W1=${PIPESTATUS[0]}
cd /; git -C /repo worktree remove --force $WT
echo "== govc check -p $PROP on /repo with the change applied"
git -C /repo apply $SRC/patch.diff || exit 2
mkdir -p /tmp/seedv-$ID; cp /verif/known_findings.txt /tmp/seedv-$ID/; (cd /verif && ./bin/govc check -p $PROP -no-evidence -verif /tmp/seedv-$ID 2>&1 | grep "VIOLATION\|^property\|KNOWN" | cut -c1-260 | head -8) ; 
git -C /repo checkout -- . 
mkdir -p /verif/seeded/$ID; cp $SRC/patch.diff /verif/seeded/$ID/; cp $DEMO /verif/seeded/$ID/$(basename $DEMO).txt; cp $SRC/notes.txt /verif/seeded/$ID/notes.txt 2>/dev/null
rm -rf /tmp/seedv-$ID
echo "demo-without=$W0 suite-with=$S1 demo-with=$W1"
